#!/usr/bin/env python3
"""Regenerates the generated tables of DESIGN.md (between the BEGIN/END GENERATED markers) from
checks/*.json, KNOWN_FINDINGS.txt, seeded/*/meta.json, na.json and properties.jsonl."""
import json, glob, os, re
V = os.path.dirname(os.path.abspath(__file__))
props = {}
for l in open(os.path.join(V, "properties.jsonl")):
    p = json.loads(l); props[p["id"]] = p
na = json.load(open(os.path.join(V, "na.json")))
out = []
out.append("### A.3 Claimed properties: harnesses, bounds, what is outside the claim\n")
out.append("(generated from `checks/*.json`; the same text goes into `evidence/<id>.json` on every run)\n")
for f in sorted(glob.glob(os.path.join(V, "checks", "C*.json"))):
    c = json.load(open(f)); pid = c["property"]
    hs = []
    for r in c["runs"]:
        for h in r["harnesses"]:
            if h not in hs: hs.append(h)
    pk = sorted({r["pkg"].replace("github.com/chrislusf/seaweedfs/", "") for r in c["runs"]})
    out.append("**%s — %s**  \npackage(s): %s; harnesses: %s  " % (pid, props[pid]["title"], ", ".join("`%s`" % x for x in pk), ", ".join("`%s`" % h for h in hs)))
    b = c.get("bounds", {})
    out.append("quick bound: %s  " % b.get("quick", "-"))
    out.append("thorough bound: %s  " % b.get("thorough", "-"))
    if c.get("stubs"): out.append("stubs / environment: " + "; ".join(c["stubs"]) + "  ")
    if c.get("assumptions"): out.append("assumptions: " + "; ".join(c["assumptions"]) + "  ")
    if c.get("outside_claim"): out.append("outside the claim: " + "; ".join(c["outside_claim"]))
    out.append("")
out.append("### A.4 Not applicable\n")
claimed = {json.load(open(f))["property"] for f in glob.glob(os.path.join(V, "checks", "C*.json"))}
for pid in sorted(props):
    if pid not in claimed:
        out.append("- **%s %s** — %s" % (pid, props[pid]["title"], na.get(pid, "not built")))
out.append("")
out.append("### A.5 Genuine defects found\n")
out.append("Every entry was produced by the solver as a model of a violated assertion, replayed natively against the real build (the `VIOLATION` line), and only then repaired or recorded. `fixed:` entries are `fix:` commits in /repo; `known:` entries are printed as KNOWN-FINDING by the check and suppress only the named assertion site.\n")
fixed, known = [], []
for l in open(os.path.join(V, "KNOWN_FINDINGS.txt")):
    l = l.strip()
    if l.startswith("fixed:"): fixed.append(l[6:].strip())
    elif l.startswith("known:"): known.append(l[6:].strip())
out.append("Repaired (%d):\n" % len(fixed))
for l in fixed:
    m = re.match(r"property=(\S+) (\S+) (.*)", l)
    out.append("- %s `%s` — %s" % (m.group(1), m.group(2), m.group(3)))
out.append("\nRecorded as known findings (%d):\n" % len(known))
for l in known:
    m = re.match(r"property=(\S+) finding=(\S+) (.*)", l)
    out.append("- %s `%s` — %s" % (m.group(1), m.group(2), m.group(3)))
out.append("")
out.append("### A.6 Seeded breaking changes and which check catches them\n")
out.append("Each change was written by a fresh sub-agent that saw only the property text and a scratch worktree, compiles, passes the existing tests of the touched packages, and comes with a demonstration test; `seedcheck.sh` confirmed that independently and ran the property's check against a worktree with the change applied.\n")
out.append("| seed | property | what it breaks | first line of the check |")
out.append("|---|---|---|---|")
for d in sorted(glob.glob(os.path.join(V, "seeded", "*"))):
    mf = os.path.join(d, "meta.json")
    if not os.path.exists(mf): continue
    m = json.load(open(mf))
    cr = m.get("check_result", {})
    line = (cr.get("lines") or ["-"])[0]
    line = re.sub(r"replay=\S*/", "replay=", line)[:110]
    wb = m.get("what_breaks", "")
    wb = (wb[:230] + "...") if len(wb) > 230 else wb
    out.append("| %s | %s | %s | rc=%s `%s` |" % (os.path.basename(d), m.get("property"), wb.replace("|", "/").replace("\n", " "), cr.get("exit_code"), line.replace("|", "/")))
out.append("")
text = "\n".join(out)
p = os.path.join(V, "DESIGN.md")
s = open(p).read()
b, e = "<!-- BEGIN GENERATED -->", "<!-- END GENERATED -->"
if b in s:
    s = s[:s.index(b) + len(b)] + "\n" + text + "\n" + s[s.index(e):]
    open(p, "w").write(s)
    print("DESIGN.md tables regenerated (%d lines)" % len(out))
else:
    print(text)
