package zzverifrt

// Merge-friendly reference models of standard-library leaves. The engine redirects the named
// library function to the model (the real ones return from inside their digit loop, which forks
// the path per character); natively the real functions run, so a model that misrepresents the
// library shows up as a counterexample that does not reproduce.

import "strconv"

func digitVal(c byte) (d byte, valid bool) {
	isd := And(c >= '0', c <= '9')
	isl := And(c >= 'a', c <= 'z')
	isu := And(c >= 'A', c <= 'Z')
	d = c - '0'
	if isl {
		d = c - 'a' + 10
	}
	if isu {
		d = c - 'A' + 10
	}
	return d, Or(isd, Or(isl, isu))
}

// ModelParseUint mirrors strconv.ParseUint for explicit bases 2..36 (no base prefixes, no underscores).
func ModelParseUint(s string, base int, bitSize int) (uint64, error) {
	const fn = "ParseUint"
	if s == "" {
		return 0, &strconv.NumError{Func: fn, Num: s, Err: strconv.ErrSyntax}
	}
	if base < 2 || base > 36 {
		Unsupported("ParseUint with base 0 or an invalid base")
	}
	if bitSize == 0 {
		bitSize = 64
	}
	if bitSize < 0 || bitSize > 64 {
		return 0, &strconv.NumError{Func: fn, Num: s, Err: strconv.ErrRange}
	}
	maxVal := uint64(1)<<uint(bitSize) - 1
	cutoff := ^uint64(0)/uint64(base) + 1
	var n uint64
	live := true
	syn := false
	rng := false
	for i := 0; i < len(s); i++ {
		d, valid := digitVal(s[i])
		bad := Or(!valid, d >= byte(base))
		syn = Or(syn, And(live, bad))
		live = And(live, !bad)
		o1 := n >= cutoff
		n = n * uint64(base)
		n1 := n + uint64(d)
		ovf := Or(o1, Or(n1 < n, n1 > maxVal))
		rng = Or(rng, And(live, ovf))
		live = And(live, !ovf)
		n = n1
	}
	if syn {
		return 0, &strconv.NumError{Func: fn, Num: s, Err: strconv.ErrSyntax}
	}
	if rng {
		return maxVal, &strconv.NumError{Func: fn, Num: s, Err: strconv.ErrRange}
	}
	return n, nil
}

// ModelParseInt mirrors strconv.ParseInt for explicit bases.
func ModelParseInt(s string, base int, bitSize int) (int64, error) {
	const fn = "ParseInt"
	if s == "" {
		return 0, &strconv.NumError{Func: fn, Num: s, Err: strconv.ErrSyntax}
	}
	s0 := s
	neg := false
	if s[0] == '+' {
		s = s[1:]
	} else if s[0] == '-' {
		neg = true
		s = s[1:]
	}
	un, err := ModelParseUint(s, base, bitSize)
	if err != nil {
		ne := err.(*strconv.NumError)
		if ne.Err != strconv.ErrRange {
			return 0, &strconv.NumError{Func: fn, Num: s0, Err: ne.Err}
		}
	}
	if bitSize == 0 {
		bitSize = 64
	}
	cutoff := uint64(1) << uint(bitSize-1)
	if !neg && un >= cutoff {
		return int64(cutoff - 1), &strconv.NumError{Func: fn, Num: s0, Err: strconv.ErrRange}
	}
	if neg && un > cutoff {
		return -int64(cutoff), &strconv.NumError{Func: fn, Num: s0, Err: strconv.ErrRange}
	}
	n := int64(un)
	if neg {
		n = -n
	}
	return n, nil
}

// ModelAtoi mirrors strconv.Atoi.
func ModelAtoi(s string) (int, error) {
	const fn = "Atoi"
	i64, err := ModelParseInt(s, 10, 0)
	if nerr, ok := err.(*strconv.NumError); ok {
		return int(i64), &strconv.NumError{Func: fn, Num: s, Err: nerr.Err}
	}
	return int(i64), err
}

// Unsupported marks a path the models do not cover: the engine reports INCONCLUSIVE.
func Unsupported(why string) { panic("VERIF-UNSUPPORTED: " + why) }

// Native reports whether the harness runs as ordinary Go (replay): the engine answers false. Used to
// build real artefacts (e.g. signed tokens) at replay where the engine uses a model of the library.
func Native() bool { return true }
