// Package zzverifrt is the nondet/assume/assert runtime of the verification harnesses.
//
// Under the symbolic engine (gse) every function here is intercepted: nondet values become SMT
// variables, Assume extends the path condition, Assert becomes a verification condition.
// Natively (replay of a counterexample) the values are read from the JSON file named by
// VERIF_REPLAY, Assume/Cover are no-ops and a failed Assert panics.
package zzverifrt

import (
	"encoding/json"
	"fmt"
	"hash/crc32"
	"os"
	"strconv"
	"strings"
	"time"
)

type rec struct {
	Tag  string   `json:"tag"`
	Kind string   `json:"kind"`
	V    uint64   `json:"v"`
	B    []uint64 `json:"b"`
}

type replayFile struct {
	Harness string         `json:"harness"`
	Replay  []rec          `json:"replay"`
	Params  map[string]int `json:"params"`
}

var (
	loaded bool
	recs   []rec
	pos    int
	params map[string]int
)

// AssertFailed is the panic payload of a failed Assert during native replay.
type AssertFailed struct{ Tag string }

func (a AssertFailed) Error() string { return "VERIF-ASSERT-FAILED " + a.Tag }

func load() {
	if loaded {
		return
	}
	loaded = true
	params = map[string]int{}
	if p := os.Getenv("VERIF_PARAMS"); p != "" {
		for _, kv := range strings.Split(p, ",") {
			f := strings.SplitN(kv, "=", 2)
			if len(f) == 2 {
				n, _ := strconv.Atoi(f[1])
				params[f[0]] = n
			}
		}
	}
	baseParams = map[string]int{}
	for k, v := range params {
		baseParams[k] = v
	}
	path := os.Getenv("VERIF_REPLAY")
	if path == "" {
		return
	}
	b, err := os.ReadFile(path)
	if err != nil {
		panic(err)
	}
	var rf replayFile
	if err := json.Unmarshal(b, &rf); err != nil {
		panic(err)
	}
	recs = rf.Replay
	for k, v := range rf.Params {
		params[k] = v
	}
}

// LoadFile loads a replay file and restarts consumption (used by the replay test).
func LoadFile(path string) {
	load()
	b, err := os.ReadFile(path)
	if err != nil {
		panic(err)
	}
	var rf replayFile
	if err := json.Unmarshal(b, &rf); err != nil {
		panic(err)
	}
	recs = rf.Replay
	// parameters are per replay file: nothing leaks from the file replayed before
	params = map[string]int{}
	for k, v := range baseParams {
		params[k] = v
	}
	for k, v := range rf.Params {
		params[k] = v
	}
	pos = 0
}

// Reset restarts consumption of the replay records (used by the replay test).
func Reset() {
	load()
	pos = 0
	for _, d := range tmpDirs {
		os.RemoveAll(d)
	}
	tmpDirs = nil
}

func next(tag, kind string) rec {
	load()
	if pos >= len(recs) {
		// values the model did not constrain
		return rec{Tag: tag, Kind: kind}
	}
	// clock readings / random draws of code that is not hooked natively are skipped
	for pos < len(recs) && (recs[pos].Kind == "time" || recs[pos].Kind == "rand") && recs[pos].Kind != kind {
		pos++
	}
	if pos >= len(recs) {
		return rec{Tag: tag, Kind: kind}
	}
	r := recs[pos]
	pos++
	if r.Tag != tag || r.Kind != kind {
		panic(fmt.Sprintf("VERIF-REPLAY-DESYNC: want %s/%s, file has %s/%s at %d", tag, kind, r.Tag, r.Kind, pos-1))
	}
	return r
}

func U8(tag string) uint8   { return uint8(next(tag, "u8").V) }
func U16(tag string) uint16 { return uint16(next(tag, "u16").V) }
func U32(tag string) uint32 { return uint32(next(tag, "u32").V) }
func U64(tag string) uint64 { return next(tag, "u64").V }
func I32(tag string) int32  { return int32(uint32(next(tag, "i32").V)) }
func I64(tag string) int64  { return int64(next(tag, "i64").V) }
func Int(tag string) int    { return int(int64(next(tag, "int").V)) }
func Bool(tag string) bool  { return next(tag, "bool").V != 0 }

// Bytes returns n bytes with arbitrary contents (n must be concrete on the path).
func Bytes(tag string, n int) []byte {
	r := next(tag, "bytes")
	b := make([]byte, n)
	for i := 0; i < n && i < len(r.B); i++ {
		b[i] = byte(r.B[i])
	}
	return b
}

// Str returns a string of n arbitrary bytes.
func Str(tag string, n int) string { return string(Bytes(tag, n)) }

// Len case-splits over lo..hi: the result is concrete on every path.
func Len(tag string, lo, hi int) int {
	r := next(tag, "len")
	if len(recs) == 0 {
		return lo
	}
	return int(r.V)
}

// Choice case-splits over 0..n-1.
func Choice(tag string, n int) int { return int(next(tag, "choice").V) }

// Assume restricts the inputs considered (validity predicate / bound). Native: no-op.
func Assume(cond bool) {}

// Assert states the property.
func Assert(cond bool, tag string) {
	if !cond {
		panic(AssertFailed{tag})
	}
}

// Cover marks a point that some feasible path must reach (vacuity guard).
func Cover(tag string) {}

// Param returns a concrete bound chosen by the driver (tier dependent).
func Param(name string, def int) int {
	load()
	if v, ok := params[name]; ok {
		return v
	}
	return def
}

// And / Or / Implies evaluate both operands (no short-circuit control flow for the engine to fork on).
func And(a, b bool) bool     { return a && b }
func Or(a, b bool) bool      { return a || b }
func Implies(a, b bool) bool { return !a || b }

// BytesEq compares two byte slices without control flow.
func BytesEq(a, b []byte) bool { return string(a) == string(b) }

// ExpectPanic declares that a panic of the code under test from here on is acceptable.
func ExpectPanic() {}

var castagnoli = crc32.MakeTable(crc32.Castagnoli)

// CRC32C is the CRC-32C update function; under the engine it is the same uninterpreted
// function that stands for hash/crc32 and klauspost/crc32 Update.
func CRC32C(prev uint32, data []byte) uint32 { return crc32.Update(prev, castagnoli, data) }

var tmpDirs []string

var baseParams map[string]int

// TempDir returns a scratch directory: a fixed virtual path under the engine's in-memory file
// system, a fresh real directory natively.
func TempDir() string {
	d, err := os.MkdirTemp("", "verifreplay")
	if err != nil {
		panic(err)
	}
	tmpDirs = append(tmpDirs, d)
	return d
}

// Now is the clock of the code under test during native replay: the driver overlays copies of the
// files listed as clock_files in which time.Now() is re-pointed here, so that the native run sees
// exactly the instants of the solver's model. Without replay data it is the real clock.
func Now() time.Time {
	load()
	if pos < len(recs) && recs[pos].Kind == "time" {
		r := recs[pos]
		pos++
		ns := int64(0)
		if len(r.B) > 0 {
			ns = int64(r.B[0])
		}
		return time.Unix(int64(r.V), ns)
	}
	return time.Now()
}
