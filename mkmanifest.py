#!/usr/bin/env python3
"""Regenerates /verif/MANIFEST.json from checks/*.json and na.json."""
import json, os, glob
V = os.path.dirname(os.path.abspath(__file__))
props = [json.loads(l) for l in open(os.path.join(V, "properties.jsonl"))]
na = json.load(open(os.path.join(V, "na.json")))
checks = []
claimed = set()
for p in sorted(glob.glob(os.path.join(V, "checks", "C*.json"))):
    c = json.load(open(p))
    pid = c["property"]
    claimed.add(pid)
    checks.append({
        "property_id": pid,
        "quick_cmd": "./check %s --tier quick" % pid,
        "thorough_cmd": "./check %s --tier thorough" % pid,
        "evidence_file": "/verif/evidence/%s.json" % pid,
        "replay_cmd_template": "./check %s --replay {path}" % pid,
        "engine": "gse",
        "level_claimed": {
            "category": "model_checking",
            "text": c.get("level_text", "Bounded symbolic execution of the named real functions (go/ssa lowered to SMT-LIB2, decided by z3): every assertion holds for all values of the symbolic inputs on every explored path within the bounds listed in the evidence; nothing is claimed outside them. Counterexamples are replayed natively against the real build before being reported."),
            "design_ref": "DESIGN.md §A.3 " + pid + " (plan: §3 " + pid + ")",
        },
        "level_note": c.get("level_note", "Trusted: go/ssa lowering (x/tools v0.29.0), the gse interpreter (validated by native replay), z3 5.1.0 (fallback: z3 4.8.12, cvc5). Stubs and assumptions: " + "; ".join(c.get("stubs", []) + c.get("assumptions", [])) + ". Outside the claim: " + "; ".join(c.get("outside_claim", []))),
        "technique": c.get("technique", "bounded symbolic execution of the real Go code (go/ssa -> SMT-LIB2), z3 decides every path condition and assertion; native replay of models"),
    })
not_app = []
for p in props:
    if p["id"] not in claimed:
        not_app.append({"property_id": p["id"], "reason": na.get(p["id"], "no solver-based check has been built for this property (yet) in this repository state; see DESIGN.md §4")})
m = {
    "version": 1,
    "setup_cmd": "cd /verif/engine && GOFLAGS=-mod=mod GOPROXY=off GOSUMDB=off GOTOOLCHAIN=local go build -o /verif/bin/gse .",
    "hooks": {
        "guard": "verif",
        "enable": "none needed: harnesses and the nondet runtime are injected with go/packages overlays (engine) and `go test -overlay` (native replay); nothing is written into /repo",
        "baseline_off_cmd": "cd /repo && GOFLAGS=-mod=mod go test -vet=off -count=1 -timeout 25m ./...",
        "source_commits": [],
        "add_only": True,
    },
    "engines": [{"name": "gse", "path": "/verif/engine", "serves_properties": sorted(claimed),
                 "kind_free_text": "symbolic executor for Go: go/ssa -> SMT-LIB2 (bit-vectors), z3 -in incremental, path forking with region merging, native replay of counterexamples"}],
    "checks": checks,
    "not_applicable": not_app,
    "notes": "All checks: exit 0 = every VC unsat within clean bounds; exit 1 + VIOLATION line = natively reproduced counterexample; exit 2 = inconclusive (bound hit, solver unknown, unsupported construct, engine/native mismatch), never reported as a pass. Known findings: /verif/KNOWN_FINDINGS.txt.",
}
json.dump(m, open(os.path.join(V, "MANIFEST.json"), "w"), indent=1)
print("checks:", len(checks), "not_applicable:", len(not_app))
