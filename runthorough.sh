#!/bin/bash
# runs the thorough tier of the given checks (default: all) one after the other, with a cap per check
cd "$(dirname "$0")"
cap=${CAP:-1500}
ids=${@:-$(ls checks | sed 's/.json//')}
for id in $ids; do
  s=$(date +%s)
  out=$(timeout $cap ./check $id --tier thorough 2>/dev/null | grep -E "^(OK|VIOLATION|INCONCLUSIVE|ENGINE-MISMATCH|KNOWN-FINDING|ERROR)" | cut -c1-140 | tr '\n' '|')
  echo "$id rc=$? $(( $(date +%s) - s ))s $out"
done
