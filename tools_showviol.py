#!/usr/bin/env python3
import json,ast,sys
o=json.load(open(sys.argv[1]))
for r in o['results']:
    for v in r.get('violations') or []:
        rp=v['replay']
        if isinstance(rp,str): rp=ast.literal_eval(rp)
        print(v['tag'], ' '.join('%s=%s'%(x['tag'],x.get('b') if x['kind']=='bytes' else x['v']) for x in rp if x['kind']!='time'), '|', v.get('msg','')[:100])
