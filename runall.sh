#!/bin/bash
# runs every registered check (quick tier by default) and prints one line per property
tier=${1:-quick}
cd "$(dirname "$0")"
for f in checks/C*.json; do
  id=$(basename $f .json)
  s=$(date +%s)
  out=$(timeout 3600 ./check $id --tier $tier 2>/dev/null | grep -E "^(OK|VIOLATION|INCONCLUSIVE|ENGINE-MISMATCH|KNOWN-FINDING|ERROR)" | cut -c1-160 | tr '\n' '|')
  echo "$id rc=$? $(( $(date +%s) - s ))s $out"
done
