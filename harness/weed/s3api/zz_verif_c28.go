package s3api

import (
	"io"
	"net/http"
	"net/url"
	"strings"

	"github.com/aws/aws-sdk-go/aws"
	"github.com/aws/aws-sdk-go/service/s3"
	"github.com/gorilla/mux"

	"github.com/chrislusf/seaweedfs/weed/pb/filer_pb"
	"github.com/chrislusf/seaweedfs/weed/s3api/s3err"
	rt "github.com/chrislusf/seaweedfs/weed/zzverifrt"
)

type verifResp struct {
	h      http.Header
	status int
	body   []byte
}

func (w *verifResp) Header() http.Header {
	if w.h == nil {
		w.h = http.Header{}
	}
	return w.h
}
func (w *verifResp) Write(b []byte) (int, error) { w.body = append(w.body, b...); return len(b), nil }
func (w *verifResp) WriteHeader(code int)        { w.status = code }
func (w *verifResp) Flush()                      {}

// the filer is replaced by recording fakes at the S3 server's own helper functions
var verifUploadUrls []string
var verifListing []*filer_pb.Entry
var verifMade []*filer_pb.FileChunk

//verif:redirect (*github.com/chrislusf/seaweedfs/weed/s3api.S3ApiServer).exists verifExists
func verifExists(s3a *S3ApiServer, parentDirectoryPath string, entryName string, isDirectory bool) (bool, error) {
	return true, nil
}

//verif:redirect (*github.com/chrislusf/seaweedfs/weed/s3api.S3ApiServer).putToFiler verifPutToFiler
func verifPutToFiler(s3a *S3ApiServer, r *http.Request, uploadUrl string, dataReader io.Reader) (string, s3err.ErrorCode) {
	verifUploadUrls = append(verifUploadUrls, uploadUrl)
	return "etag", s3err.ErrNone
}

//verif:redirect (*github.com/chrislusf/seaweedfs/weed/s3api.S3ApiServer).list verifList
func verifList(s3a *S3ApiServer, parentDirectoryPath, prefix, startFrom string, inclusive bool, limit uint32) ([]*filer_pb.Entry, bool, error) {
	return verifListing, true, nil
}

//verif:redirect (*github.com/chrislusf/seaweedfs/weed/s3api.S3ApiServer).getEntry verifGetEntry
func verifGetEntry(s3a *S3ApiServer, parentDirectoryPath, entryName string) (*filer_pb.Entry, error) {
	return &filer_pb.Entry{Name: entryName, IsDirectory: true}, nil
}

//verif:redirect (*github.com/chrislusf/seaweedfs/weed/s3api.S3ApiServer).mkFile verifMkFile
func verifMkFile(s3a *S3ApiServer, parentDirectoryPath string, fileName string, chunks []*filer_pb.FileChunk, fn func(entry *filer_pb.Entry)) error {
	verifMade = chunks
	return nil
}

//verif:redirect (*github.com/chrislusf/seaweedfs/weed/s3api.S3ApiServer).rm verifRm
func verifRm(s3a *S3ApiServer, parentDirectoryPath, entryName string, isDeleteData, isRecursive bool) error {
	return nil
}

func verifDigits(tag string, n int) (string, int) {
	s := rt.Str(tag, n)
	v := 0
	for i := 0; i < n; i++ {
		rt.Assume(rt.And(s[i] >= '0', s[i] <= '9'))
		v = v*10 + int(s[i]-'0')
	}
	return s, v
}

// C28: the parts of a multipart upload are assembled in part-number order: the name under which a part
// is stored by the real upload handler must sort (by name, as the filer lists) the way part numbers sort.
func VerifC28_MultipartOrder() {
	s3a := &S3ApiServer{option: &S3ApiServerOption{Filer: "f:8888", BucketsPath: "/buckets"}, iam: &IdentityAccessManagement{}}
	verifUploadUrls, verifMade = nil, nil
	var nums [2]int
	var sizes [2]uint64
	var names [2]string
	for i := 0; i < 2; i++ {
		txt, v := verifDigits("partnumber", rt.Len("digits", 1, rt.Param("digits", 5)))
		rt.Assume(rt.And(v >= 1, v <= 10000)) // S3 part numbers
		nums[i] = v
		r := &http.Request{Method: "PUT", Header: http.Header{}, URL: &url.URL{Path: "/b/o", RawQuery: "partNumber=" + txt + "&uploadId=u"}, Body: io.NopCloser(strings.NewReader(""))}
		r = mux.SetURLVars(r, map[string]string{"bucket": "b", "object": "o"})
		w := &verifResp{}
		before := len(verifUploadUrls)
		s3a.PutObjectPartHandler(w, r)
		rt.Assert(len(verifUploadUrls) == before+1, "part-upload-accepted")
		u := verifUploadUrls[before]
		prefix := "http://f:8888/buckets/b/.uploads/u/"
		suffix := "?collection=b"
		rt.Assert(rt.And(len(u) > len(prefix)+len(suffix), u[:len(prefix)] == prefix), "upload-url-shape")
		names[i] = u[len(prefix) : len(u)-len(suffix)]
		sizes[i] = uint64(rt.U32("size"))
	}
	rt.Assume(nums[0] < nums[1])
	// the filer lists the upload directory in name order
	e0 := &filer_pb.Entry{Name: names[0], Chunks: []*filer_pb.FileChunk{{FileId: "3,01", Size: sizes[0]}}}
	e1 := &filer_pb.Entry{Name: names[1], Chunks: []*filer_pb.FileChunk{{FileId: "3,02", Size: sizes[1]}}}
	if names[0] < names[1] {
		verifListing = []*filer_pb.Entry{e0, e1}
	} else {
		verifListing = []*filer_pb.Entry{e1, e0}
	}
	_, code := s3a.completeMultipartUpload(&s3.CompleteMultipartUploadInput{Bucket: aws.String("b"), Key: aws.String("o"), UploadId: aws.String("u")})
	rt.Cover("completed")
	rt.Assert(code == s3err.ErrNone, "complete-ok")
	rt.Assert(len(verifMade) == 2, "both-parts-assembled")
	good := rt.And(rt.And(verifMade[0].FileId == "3,01", verifMade[0].Offset == 0), rt.And(verifMade[1].FileId == "3,02", verifMade[1].Offset == int64(sizes[0])))
	if nums[1] >= 10000 {
		rt.Assert(good, "parts-assembled-in-part-number-order@known:multipart-part-names-sort-wrong-from-10000")
	} else {
		rt.Assert(good, "parts-assembled-in-part-number-order")
	}
}

// C28 (assembly): the completed object is the concatenation of the parts: every chunk of every part
// lands at (sum of the sizes of the earlier parts) + (its offset inside its part), with its size.
func VerifC28_MultipartAssemble() {
	s3a := &S3ApiServer{option: &S3ApiServerOption{Filer: "f:8888", BucketsPath: "/buckets"}, iam: &IdentityAccessManagement{}}
	verifUploadUrls, verifMade = nil, nil
	nparts := rt.Len("parts", 1, rt.Param("parts", 3))
	type want struct {
		fid    string
		offset int64
		size   uint64
	}
	var wants []want
	verifListing = nil
	partStart := int64(0)
	for p := 0; p < nparts; p++ {
		e := &filer_pb.Entry{Name: "000" + string(rune('1'+p)) + ".part"}
		inPart := int64(0)
		for c, nc := 0, rt.Len("chunks", 0, rt.Param("chunksperpart", 3)); c < nc; c++ {
			size := uint64(rt.U16("size"))
			fid := "3,0" + string(rune('1'+p)) + string(rune('1'+c))
			e.Chunks = append(e.Chunks, &filer_pb.FileChunk{FileId: fid, Offset: inPart, Size: size, Mtime: 7})
			wants = append(wants, want{fid, partStart + inPart, size})
			inPart += int64(size)
		}
		partStart += inPart
		verifListing = append(verifListing, e)
	}
	// entries that are not parts must be ignored
	verifListing = append(verifListing, &filer_pb.Entry{Name: "junk", Chunks: []*filer_pb.FileChunk{{FileId: "9,09", Size: 5}}})
	_, code := s3a.completeMultipartUpload(&s3.CompleteMultipartUploadInput{Bucket: aws.String("b"), Key: aws.String("o"), UploadId: aws.String("u")})
	rt.Cover("assembled")
	rt.Assert(code == s3err.ErrNone, "complete-ok")
	rt.Assert(len(verifMade) == len(wants), "every-chunk-of-every-part-and-nothing-else")
	for i := 0; i < len(wants) && i < len(verifMade); i++ {
		g := verifMade[i]
		rt.Assert(rt.And(g.FileId == wants[i].fid, rt.And(g.Offset == wants[i].offset, g.Size == wants[i].size)), "chunk-lands-at-part-start-plus-offset-in-part")
	}
}
