package s3api

import (
	"context"
	"io"
	"sort"
	"strings"

	"google.golang.org/grpc"

	"github.com/chrislusf/seaweedfs/weed/pb/filer_pb"
	rt "github.com/chrislusf/seaweedfs/weed/zzverifrt"
)

// A filer holding a fixed tree: directory path -> sorted child entries. ListEntries honours the filer's
// contract (name order, start-after / inclusive, prefix, limit).
type verifFiler struct {
	filer_pb.SeaweedFilerClient
	tree map[string][]*filer_pb.Entry
}

type verifListStream struct {
	grpc.ClientStream
	items []*filer_pb.Entry
	pos   int
}

func (s *verifListStream) Recv() (*filer_pb.ListEntriesResponse, error) {
	if s.pos >= len(s.items) {
		return nil, io.EOF
	}
	e := s.items[s.pos]
	s.pos++
	return &filer_pb.ListEntriesResponse{Entry: e}, nil
}

func (f *verifFiler) ListEntries(ctx context.Context, in *filer_pb.ListEntriesRequest, opts ...grpc.CallOption) (filer_pb.SeaweedFiler_ListEntriesClient, error) {
	var out []*filer_pb.Entry
	for _, e := range f.tree[in.Directory] {
		if in.Prefix != "" && !strings.HasPrefix(e.Name, in.Prefix) {
			continue
		}
		if in.StartFromFileName != "" {
			if e.Name < in.StartFromFileName || (e.Name == in.StartFromFileName && !in.InclusiveStartFrom) {
				continue
			}
		}
		if uint32(len(out)) >= in.Limit {
			break
		}
		out = append(out, e)
	}
	return &verifListStream{items: out}, nil
}

func verifFile(name string) *filer_pb.Entry {
	return &filer_pb.Entry{Name: name, Attributes: &filer_pb.FuseAttributes{}}
}
func verifDirEntry(name string) *filer_pb.Entry {
	return &filer_pb.Entry{Name: name, IsDirectory: true, Attributes: &filer_pb.FuseAttributes{}}
}

// verifTreeKeys is the key universe of generated buckets (in listing order).
var verifTreeKeys = []string{"a", "d/e/f", "d/e/g", "d/x", "d/y", "g/y", "g/z", "g/zz", "h"}

// verifTree builds a bucket holding an arbitrary subset of the key universe (directories are derived
// from the keys) plus, optionally, the multipart staging folder.
func verifTree() (map[string][]*filer_pb.Entry, []string) {
	root := "/buckets/b"
	tree := map[string][]*filer_pb.Entry{}
	seenDir := map[string]bool{}
	var keys []string
	if rt.Bool("uploads") {
		tree[root] = append(tree[root], verifDirEntry(".uploads"))
		tree[root+"/.uploads"] = []*filer_pb.Entry{verifFile("u")}
	}
	n := rt.Param("keys", len(verifTreeKeys))
	for _, k := range verifTreeKeys[:n] {
		if !rt.Bool("present") {
			continue
		}
		keys = append(keys, k)
		parts := strings.Split(k, "/")
		dir := root
		for i, p := range parts {
			if i == len(parts)-1 {
				tree[dir] = append(tree[dir], verifFile(p))
				break
			}
			if !seenDir[dir+"/"+p] {
				seenDir[dir+"/"+p] = true
				tree[dir] = append(tree[dir], verifDirEntry(p))
			}
			dir = dir + "/" + p
		}
	}
	return tree, keys
}

// C27: listing a bucket without delimiter, following the returned marker until the listing is no longer
// truncated, yields every object key exactly once, never more than max-keys per page, and nothing from
// the multipart staging area.
func VerifC27_ListPagination() {
	tree, keys := verifTree()
	s3a := &S3ApiServer{option: &S3ApiServerOption{BucketsPath: "/buckets", AllowEmptyFolder: true}, iam: &IdentityAccessManagement{}}
	client := &verifFiler{tree: tree}
	maxKeys := rt.Len("maxkeys", 1, rt.Param("maxkeys", 3))
	var got []string
	marker := ""
	pages := 0
	for {
		pages++
		if pages > 12 {
			rt.Assert(false, "pagination-terminates")
			return
		}
		var page []string
		_, truncated, next, err := s3a.doListFilerEntries(client, "/buckets/b", "", maxKeys, marker, "", func(dir string, entry *filer_pb.Entry) {
			if !entry.IsDirectory {
				page = append(page, (dir + "/" + entry.Name)[len("/buckets/b/"):])
			}
		})
		rt.Assert(err == nil, "list-ok")
		rt.Assert(len(page) <= maxKeys, "page-within-max-keys")
		got = append(got, page...)
		if !truncated {
			break
		}
		rt.Assert(next != marker || len(page) > 0, "truncated-page-makes-progress")
		marker = next
	}
	rt.Cover("listed")
	sort.Strings(got)
	ok := len(got) == len(keys)
	if ok {
		for i := range keys {
			ok = ok && got[i] == keys[i]
		}
	}
	rt.Assert(ok, "every-key-exactly-once")
}
