package s3api

import (
	"time"
	"net/http"
	"net/url"

	"github.com/gorilla/mux"

	"github.com/chrislusf/seaweedfs/weed/s3api/s3err"
	rt "github.com/chrislusf/seaweedfs/weed/zzverifrt"
)

// signature verification (HMAC / SHA-256) is outside the claim: the verifiers return either an error or
// the identity whose credentials signed the request; a ghost flag records that verification took place.
var verifVerified bool
var verifSigner *Identity
var verifSigErr s3err.ErrorCode

//verif:redirect (*github.com/chrislusf/seaweedfs/weed/s3api.IdentityAccessManagement).isReqAuthenticatedV2 verifAuthV2
func verifAuthV2(iam *IdentityAccessManagement, r *http.Request) (*Identity, s3err.ErrorCode) {
	verifVerified = true
	return verifSigner, verifSigErr
}

//verif:redirect (*github.com/chrislusf/seaweedfs/weed/s3api.IdentityAccessManagement).reqSignatureV4Verify verifAuthV4
func verifAuthV4(iam *IdentityAccessManagement, r *http.Request) (*Identity, s3err.ErrorCode) {
	verifVerified = true
	return verifSigner, verifSigErr
}

var verifActionPool = []Action{"Read", "Write", "List", "Admin", "Read:b", "Write:b", "Admin:b", "Read:b*", "Write:c"}

func verifIdentity(name string) *Identity {
	id := &Identity{Name: name}
	n := rt.Len(name+"-actions", 0, 2)
	for i := 0; i < n; i++ {
		id.Actions = append(id.Actions, verifActionPool[rt.Choice(name+"-action", len(verifActionPool))])
	}
	return id
}

// reference permission model: "Admin" grants everything; "A" grants action A on every bucket; "A:x"
// grants A on bucket x; "A:x*" on buckets starting with x; "Admin:x" / "Admin:x*" grant everything there.
func verifAllowed(id *Identity, action Action, bucket string) bool {
	for _, a := range id.Actions {
		s := string(a)
		if s == "Admin" || s == string(action) {
			return true
		}
		if bucket == "" {
			continue
		}
		for _, who := range []string{string(action), "Admin"} {
			want := who + ":" + bucket
			if s == want {
				return true
			}
			if len(s) > 0 && s[len(s)-1] == '*' && len(want) >= len(s)-1 && want[:len(s)-1] == s[:len(s)-1] {
				return true
			}
		}
	}
	return false
}

// C26: a request is let through (ErrNone) only with a verified signature of an identity that may perform
// the action on the bucket, or anonymously when an anonymous identity with that permission exists.
func VerifC26_AuthRequest() {
	// the full action-list space is covered by VerifC26_CanDo; here two representative permission sets
	user := &Identity{Name: "user", Actions: [][]Action{nil, {"Read:b"}, {"Admin"}}[rt.Choice("user-permissions", 3)]}
	anon := &Identity{Name: "anonymous", Actions: [][]Action{nil, {"Read"}}[rt.Choice("anonymous-permissions", 2)]}
	iam := &IdentityAccessManagement{identities: []*Identity{user}}
	if rt.Choice("has-anonymous", 2) == 1 {
		iam.identities = append(iam.identities, anon)
	}
	verifVerified, verifSigner, verifSigErr = false, user, s3err.ErrNone
	if rt.Choice("signature-valid", 2) == 0 {
		verifSigner, verifSigErr = nil, s3err.ErrSignatureDoesNotMatch
	}
	r := &http.Request{Method: []string{"GET", "PUT", "POST"}[rt.Choice("method", 3)], Header: http.Header{}, URL: &url.URL{Path: "/b/o"}}
	switch rt.Choice("authorization", 5) {
	case 1:
		r.Header.Set("Authorization", "AWS4-HMAC-SHA256 Credential=k/20200101/us-east-1/s3/aws4_request, SignedHeaders=host, Signature=00")
	case 2:
		r.Header.Set("Authorization", "AWS k:sig")
	case 3:
		r.Header.Set("Authorization", "Bearer tok")
	case 4:
		r.Header.Set("Authorization", "Basic xyz")
	}
	if rt.Choice("streaming", 2) == 1 {
		r.Header.Set("x-amz-content-sha256", streamingContentSHA256)
	}
	if rt.Choice("multipart-form", 2) == 1 {
		r.Header.Set("Content-Type", "multipart/form-data; boundary=x")
	}
	switch rt.Choice("presign", 3) {
	case 1:
		r.URL.RawQuery = "X-Amz-Credential=k"
	case 2:
		r.URL.RawQuery = "AWSAccessKeyId=k"
	}
	bucket := []string{"b", "c"}[rt.Choice("bucket", 2)]
	r = mux.SetURLVars(r, map[string]string{"bucket": bucket, "object": "o"})
	action := []Action{"Read", "Write"}[rt.Choice("action", 2)]
	id, code := iam.authRequest(r, action)
	rt.Cover("decided")
	if code != s3err.ErrNone {
		return
	}
	rt.Cover("allowed")
	at := getRequestAuthType(r)
	if at == authTypeStreamingSigned || at == authTypePostPolicy {
		// let through here; the handlers verify the chunk signatures / the POST policy later
		rt.Assert(id != nil, "streaming-and-post-policy-requests-pass-without-identity-or-permission-check@known:s3-auth-skips-permission-for-streaming-and-post-policy")
		return
	}
	rt.Assert(id != nil, "allowed-request-has-an-identity")
	if at == authTypeAnonymous {
		rt.Assert(id == anon && len(iam.identities) == 2, "anonymous-allowed-only-with-anonymous-identity")
	} else {
		rt.Assert(verifVerified && verifSigErr == s3err.ErrNone && id == user, "allowed-only-with-verified-signature")
	}
	rt.Assert(verifAllowed(id, action, bucket), "allowed-only-with-permission-for-action-and-bucket")
}

// C26: canDo agrees with the reference permission model in both directions.
func VerifC26_CanDo() {
	id := verifIdentity("user")
	bucket := []string{"b", "bb", "c", ""}[rt.Choice("bucket", 4)]
	action := []Action{"Read", "Write", "List", "Tagging", "Admin"}[rt.Choice("action", 5)]
	rt.Cover("evaluated")
	rt.Assert(id.canDo(action, bucket) == verifAllowed(id, action, bucket), "permission-decision-matches-reference")
}

// ---- presigned URL validity window (V4): the HMAC chain is replaced by a constant "correct" signature, the
// clock is symbolic; everything else (query parsing, date / expiry handling, comparisons) is the real code.

//verif:redirect github.com/chrislusf/seaweedfs/weed/s3api.getSignature verifGetSignature
func verifGetSignature(signingKey []byte, stringToSign string) string { return "goodsig" }

//verif:redirect github.com/chrislusf/seaweedfs/weed/s3api.getSigningKey verifGetSigningKey
func verifGetSigningKey(secretKey string, t time.Time, region string, service string) []byte { return nil }

//verif:redirect github.com/chrislusf/seaweedfs/weed/s3api.getStringToSign verifGetStringToSign
func verifGetStringToSign(canonicalRequest string, t time.Time, scope string) string { return "" }

//verif:redirect github.com/chrislusf/seaweedfs/weed/s3api.getCanonicalRequest verifGetCanonicalRequest
func verifGetCanonicalRequest(extractedSignedHeaders http.Header, payload, queryStr, urlPath, method string) string {
	return ""
}

// C26 (presigned URLs): a V4 presigned request is authenticated only while now <= X-Amz-Date + X-Amz-Expires
// and only with the matching signature, whatever the clock reads.
func VerifC26_PresignWindow() {
	iam := &IdentityAccessManagement{}
	iam.identities = []*Identity{{Name: "u", Credentials: []*Credential{{AccessKey: "AK", SecretKey: "SK"}}, Actions: []Action{"Read"}}}
	type stamp struct {
		s    string
		unix int64
	}
	dates := []stamp{{"20200101T000000Z", 1577836800}, {"20240229T235959Z", 1709251199}}
	d := dates[rt.Choice("date", len(dates))]
	type expiry struct {
		s   string
		sec int64
	}
	exps := []expiry{{"0", 0}, {"1", 1}, {"60", 60}, {"604800", 604800}}
	e := exps[rt.Choice("expires", len(exps))]
	sig := []string{"goodsig", "badsig"}[rt.Choice("signature", 2)]
	day := d.s[:8]
	q := url.Values{}
	q.Set("X-Amz-Algorithm", "AWS4-HMAC-SHA256")
	q.Set("X-Amz-Credential", "AK/"+day+"/us-east-1/s3/aws4_request")
	q.Set("X-Amz-Date", d.s)
	q.Set("X-Amz-Expires", e.s)
	q.Set("X-Amz-SignedHeaders", "host")
	q.Set("X-Amz-Signature", sig)
	r := &http.Request{Method: "GET", Host: "h", Header: http.Header{}, URL: &url.URL{Path: "/b/o", RawQuery: q.Encode()}}
	t0 := rt.Now().Unix()
	ident, code := iam.doesPresignedSignatureMatch("UNSIGNED-PAYLOAD", r)
	t1 := rt.Now().Unix()
	if code == s3err.ErrNone {
		rt.Cover("presigned-accepted")
		rt.Assert(ident != nil && ident.Name == "u", "presigned-identity-is-the-signer")
		rt.Assert(sig == "goodsig", "presigned-wrong-signature-refused")
		// accepted at some instant in [t0,t1]: the whole second t0 must not lie past the expiry
		rt.Assert(t0 <= d.unix+e.sec, "presigned-expired-url-refused")
	} else if sig == "goodsig" && t1 <= d.unix+e.sec-1 && t0 >= d.unix {
		rt.Assert(false, "presigned-valid-url-accepted")
	}
}
