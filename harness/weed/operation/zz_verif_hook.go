package operation

import (
	"google.golang.org/grpc"

	"github.com/chrislusf/seaweedfs/weed/pb/volume_server_pb"
)

// VhVolumeServerClientHook lets a harness stand in for the volume servers: it receives the address and
// the callback that would have been given a gRPC client.
var VhVolumeServerClientHook func(volumeServer string, fn func(volume_server_pb.VolumeServerClient) error) error

//verif:redirect github.com/chrislusf/seaweedfs/weed/operation.WithVolumeServerClient vhWithVolumeServerClient
func vhWithVolumeServerClient(volumeServer string, grpcDialOption grpc.DialOption, fn func(volume_server_pb.VolumeServerClient) error) error {
	if VhVolumeServerClientHook == nil {
		panic("verif: no volume server stand-in installed")
	}
	return VhVolumeServerClientHook(volumeServer, fn)
}
