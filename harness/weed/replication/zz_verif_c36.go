package replication

import (
	"context"

	"github.com/chrislusf/seaweedfs/weed/pb/filer_pb"
	"github.com/chrislusf/seaweedfs/weed/replication/source"
	"github.com/chrislusf/seaweedfs/weed/util"
	rt "github.com/chrislusf/seaweedfs/weed/zzverifrt"
)

type verifCall struct {
	op  string
	key string
}

type verifSink struct {
	name  string
	dir   string
	found bool
	calls []verifCall
}

func (s *verifSink) GetName() string                                                { return s.name }
func (s *verifSink) Initialize(configuration util.Configuration, prefix string) error { return nil }
func (s *verifSink) DeleteEntry(key string, isDirectory, deleteIncludeChunks bool, signatures []int32) error {
	s.calls = append(s.calls, verifCall{"delete", key})
	return nil
}
func (s *verifSink) CreateEntry(key string, entry *filer_pb.Entry, signatures []int32) error {
	s.calls = append(s.calls, verifCall{"create", key})
	return nil
}
func (s *verifSink) UpdateEntry(key string, oldEntry *filer_pb.Entry, newParentPath string, newEntry *filer_pb.Entry, deleteIncludeChunks bool, signatures []int32) (bool, error) {
	s.calls = append(s.calls, verifCall{"update", key})
	return s.found, nil
}
func (s *verifSink) GetSinkToDirectory() string          { return s.dir }
func (s *verifSink) SetSourceFiler(s2 *source.FilerSource) {}
func (s *verifSink) IsIncremental() bool                 { return false }

// verifPath returns "/" + n arbitrary bytes over the alphabet {'/','d','e','2'} forming a canonical path.
func verifPath(tag string, n int) string {
	s := rt.Str(tag, n)
	for i := 0; i < n; i++ {
		c := s[i]
		rt.Assume(rt.Or(rt.Or(c == '/', c == 'd'), rt.Or(c == 'e', c == '2')))
		if i > 0 {
			rt.Assume(!rt.And(c == '/', s[i-1] == '/'))
		}
	}
	if n > 0 {
		rt.Assume(s[0] != '/')
		rt.Assume(s[n-1] != '/')
	}
	return "/" + s
}

func verifUnder(key, dir string) bool {
	if len(key) == len(dir) {
		return key == dir
	}
	if len(key) > len(dir) {
		return rt.And(key[:len(dir)] == dir, key[len(dir)] == '/')
	}
	return false
}

// C36: filer.replicate applies exactly the changes inside the source directory, at the mapped path.
func VerifC36_Replicate() {
	srcDir := []string{"/d", "/d/e"}[rt.Choice("srcdir", 2)]
	s := &verifSink{name: []string{"filer", "local"}[rt.Choice("sinkname", 2)], dir: "/t", found: rt.Choice("found", 2) == 1}
	r := &Replicator{sink: s, source: &source.FilerSource{Dir: srcDir}}
	key := verifPath("key", rt.Len("keylen", 1, rt.Param("keylen", 4)))
	msg := &filer_pb.EventNotification{IsFromOtherCluster: rt.Choice("fromother", 2) == 1}
	kind := rt.Choice("kind", 3)
	entry := &filer_pb.Entry{Name: "x", Attributes: &filer_pb.FuseAttributes{}}
	switch kind {
	case 0:
		msg.NewEntry = entry
	case 1:
		msg.OldEntry = entry
	case 2:
		msg.OldEntry, msg.NewEntry = entry, entry
	}
	err := r.Replicate(context.Background(), key, msg)
	rt.Cover("replicated")
	rt.Assert(err == nil, "replicate-ok")
	if msg.IsFromOtherCluster && s.name == "filer" {
		rt.Assert(len(s.calls) == 0, "changes-from-the-target-cluster-not-reapplied")
		return
	}
	inside := verifUnder(key, srcDir)
	if !inside {
		rt.Cover("outside")
		rt.Assert(len(s.calls) == 0, "change-outside-source-dir-ignored")
		return
	}
	rt.Cover("inside")
	want := "/t" + key[len(srcDir):]
	rt.Assert(len(s.calls) >= 1, "change-inside-source-dir-applied")
	for _, c := range s.calls {
		rt.Assert(c.key == want, "mapped-path")
	}
	switch kind {
	case 0:
		rt.Assert(rt.And(len(s.calls) == 1, s.calls[0].op == "create"), "create-applied-as-create")
	case 1:
		rt.Assert(rt.And(len(s.calls) == 1, s.calls[0].op == "delete"), "delete-applied-as-delete")
	case 2:
		rt.Assert(s.calls[0].op == "update", "update-applied-as-update")
	}
}
