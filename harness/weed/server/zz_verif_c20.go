package weed_server

import (
	"context"
	"os"
	"sort"
	"strings"

	"github.com/chrislusf/seaweedfs/weed/filer"
	"github.com/chrislusf/seaweedfs/weed/pb/filer_pb"
	"github.com/chrislusf/seaweedfs/weed/util"
	rt "github.com/chrislusf/seaweedfs/weed/zzverifrt"
)

// The file universe of the chunk / hard-link harnesses: directory /a always exists.
var verifHlFiles = []string{"/a/f", "/a/g", "/h"}

var verifHlId = []byte("LINK-ONE-0123456\x01")

func verifChunks(ids ...string) []*filer_pb.FileChunk {
	var cs []*filer_pb.FileChunk
	for i, id := range ids {
		cs = append(cs, &filer_pb.FileChunk{FileId: id, Offset: int64(i) * 10, Size: 10, Mtime: 1})
	}
	return cs
}

type verifHlState struct {
	*verifNs
	kind map[string]int // 0 absent, 1 plain, 2 linked
}

// verifHlArbitrary: every file is absent, a plain file with its own chunk, or one of the names of the
// hard link (shared chunks 3,c1 3,c2); the link counter equals the number of names (the invariant).
func verifHlArbitrary() *verifHlState {
	ns := &verifNs{store: filer.VhNewMemStore(), ctx: context.Background()}
	ns.f = filer.VhNewFiler(ns.store)
	ns.fs = &FilerServer{filer: ns.f}
	st := &verifHlState{verifNs: ns, kind: map[string]int{}}
	ns.store.InsertEntry(ns.ctx, &filer.Entry{FullPath: "/a", Attr: filer.Attr{Mode: os.ModeDir | 0755}})
	links := 0
	for _, p := range verifHlFiles {
		st.kind[p] = rt.Choice("kind", 3)
		if st.kind[p] == 2 {
			links++
		}
	}
	for i, p := range verifHlFiles {
		switch st.kind[p] {
		case 1:
			ns.f.Store.InsertEntry(ns.ctx, &filer.Entry{FullPath: util.FullPath(p), Attr: filer.Attr{Mode: 0644, Mime: "plain"}, Chunks: verifChunks("3,p" + string(rune('0'+i)))})
		case 2:
			ns.f.Store.InsertEntry(ns.ctx, &filer.Entry{FullPath: util.FullPath(p), Attr: filer.Attr{Mode: 0644, Mime: "shared"}, Chunks: verifChunks("3,c1", "3,c2"),
				HardLinkId: verifHlId, HardLinkCounter: int32(links)})
		}
	}
	return st
}

func verifChunkIds(e *filer.Entry) []string {
	var ids []string
	for _, c := range e.Chunks {
		ids = append(ids, c.GetFileIdString())
	}
	return ids
}

// verifHlReferenced: the chunk ids reachable from live entries (hard links resolved by the real store wrapper).
func (st *verifHlState) referenced() map[string]bool {
	ref := map[string]bool{}
	paths, _ := st.store.VhSnapshot()
	for _, p := range paths {
		e, err := st.f.FindEntry(st.ctx, util.FullPath(p))
		if err == nil && e != nil {
			for _, id := range verifChunkIds(e) {
				ref[id] = true
			}
		}
	}
	return ref
}

var verifAllChunkIds = []string{"3,c1", "3,c2", "3,p0", "3,p1", "3,p2", "3,n1", "3,n2"}

// verifHlCheck: the assertions shared by every step.
func (st *verifHlState) check(before map[string]bool, requestedDataDeletion bool) {
	deleted := filer.VhDeletedFileIds(st.f)
	after := st.referenced()
	for _, id := range deleted {
		rt.Assert(!after[id], "no-referenced-chunk-is-deleted")
	}
	if requestedDataDeletion {
		for _, id := range verifAllChunkIds {
			if before[id] && !after[id] {
				i := sort.SearchStrings(deleted, id)
				rt.Assert(i < len(deleted) && deleted[i] == id, "unreferenced-chunk-is-scheduled-for-deletion")
			}
		}
	}
	// hard link bookkeeping
	paths, _ := st.store.VhSnapshot()
	names := 0
	var first *filer.Entry
	for _, p := range paths {
		e, err := st.f.FindEntry(st.ctx, util.FullPath(p))
		if err != nil || e == nil || string(e.HardLinkId) != string(verifHlId) {
			continue
		}
		names++
		if first == nil {
			first = e
		} else {
			rt.Assert(strings.Join(verifChunkIds(e), ",") == strings.Join(verifChunkIds(first), ",") && e.Mime == first.Mime, "all-names-of-a-hard-link-show-the-same-file")
		}
	}
	// the invariant the pre-state assumes: distinct files do not share chunks
	owner := map[string]string{}
	for _, p := range paths {
		e, err := st.f.FindEntry(st.ctx, util.FullPath(p))
		if err != nil || e == nil {
			continue
		}
		who := p
		if len(e.HardLinkId) != 0 {
			who = string(e.HardLinkId)
		}
		for _, id := range verifChunkIds(e) {
			if prev, ok := owner[id]; ok {
				rt.Assert(prev == who, "distinct-files-share-no-chunk")
			}
			owner[id] = who
		}
	}
	if first != nil {
		rt.Assert(int(first.HardLinkCounter) == names, "link-counter-equals-number-of-names")
	}
	rt.Assert((st.store.VhKvLen() > 0) == (names > 0), "shared-record-exists-exactly-while-a-name-exists")
}

// C20/C21 (delete): deleting a file or the directory, with or without data deletion.
func VerifC20_Delete() {
	st := verifHlArbitrary()
	before := st.referenced()
	path := []string{"/a/f", "/a/g", "/h", "/a"}[rt.Choice("path", 4)]
	delData := rt.Bool("deletechunks")
	err := st.f.DeleteEntryMetaAndData(st.ctx, util.FullPath(path), true, false, delData, false, nil)
	rt.Cover("deleted")
	st.check(before, delData && err == nil)
}

// C20/C21 (overwrite): a name is written again, either through the link (the writer loaded the entry and
// keeps its hard link id, as the mount does) or as a fresh plain file (as an HTTP upload does).
func VerifC20_Overwrite() {
	st := verifHlArbitrary()
	before := st.referenced()
	path := verifHlFiles[rt.Choice("path", 3)]
	entry := &filer.Entry{FullPath: util.FullPath(path), Attr: filer.Attr{Mode: 0644, Mime: "new"}, Chunks: verifChunks("3,n1")}
	throughLink := st.kind[path] == 2 && rt.Bool("throughlink")
	if throughLink {
		old, _ := st.f.FindEntry(st.ctx, util.FullPath(path))
		entry.HardLinkId, entry.HardLinkCounter = old.HardLinkId, old.HardLinkCounter
	}
	// an append keeps the old chunks; a writer that appends has loaded the entry (and its link id)
	if (throughLink || st.kind[path] == 1) && rt.Bool("append") {
		old, _ := st.f.FindEntry(st.ctx, util.FullPath(path))
		entry.Chunks = append(append([]*filer_pb.FileChunk(nil), old.Chunks...), verifChunks("3,n1")...)
	}
	err := st.f.CreateEntry(st.ctx, entry, false, false, nil)
	rt.Cover("written")
	rt.Assert(err == nil, "overwrite-succeeds")
	st.check(before, true)
}

// C20/C21 (rename): a name moves.
func VerifC20_Rename() {
	st := verifHlArbitrary()
	before := st.referenced()
	src := verifHlFiles[rt.Choice("src", 3)]
	dst := []string{"/a/f", "/a/g", "/h", "/a/z", "/z"}[rt.Choice("dst", 5)]
	_, err := st.fs.AtomicRenameEntry(st.ctx, &filer_pb.AtomicRenameEntryRequest{
		OldDirectory: verifNsParent(src), OldName: src[strings.LastIndex(src, "/")+1:],
		NewDirectory: verifNsParent(dst), NewName: dst[strings.LastIndex(dst, "/")+1:]})
	rt.Cover("renamed")
	if st.kind[src] == 0 {
		rt.Assert(err != nil, "rename-of-missing-entry-fails")
	}
	st.check(before, err == nil)
}

// C20/C21 (link): a new name is linked to an existing file the way the mount does it (update the old
// name with the link id and the raised counter, then create the new name).
func VerifC20_Link() {
	st := verifHlArbitrary()
	before := st.referenced()
	src := verifHlFiles[rt.Choice("src", 3)]
	dst := []string{"/a/f", "/a/g", "/h", "/a/z"}[rt.Choice("dst", 4)]
	rt.Assume(src != dst && st.kind[dst] == 0) // link(2) refuses an existing new name before the filer is asked
	old, err := st.f.FindEntry(st.ctx, util.FullPath(src))
	if err != nil {
		return
	}
	upd := *old
	if len(upd.HardLinkId) == 0 {
		upd.HardLinkId = []byte("LINK-TWO-0123456\x01")
		if st.kind["/a/f"] != 2 && st.kind["/a/g"] != 2 && st.kind["/h"] != 2 {
			upd.HardLinkId = verifHlId
		}
		upd.HardLinkCounter = 1
	}
	upd.HardLinkCounter++
	rt.Assert(st.f.UpdateEntry(st.ctx, old, &upd) == nil, "link-update-succeeds")
	created := &filer.Entry{FullPath: util.FullPath(dst), Attr: upd.Attr, Chunks: upd.Chunks, HardLinkId: upd.HardLinkId, HardLinkCounter: upd.HardLinkCounter}
	err = st.f.CreateEntry(st.ctx, created, false, false, nil)
	rt.Cover("linked")
	rt.Assert(err == nil, "link-create-succeeds")
	if string(upd.HardLinkId) == string(verifHlId) {
		st.check(before, true)
	}
}
