package weed_server

import (
	"context"
	"errors"
	"io"
	"io/ioutil"
	"net/http"
	"net/url"
	"os"

	"github.com/chrislusf/seaweedfs/weed/filer"
	"github.com/chrislusf/seaweedfs/weed/operation"
	"github.com/chrislusf/seaweedfs/weed/pb/filer_pb"
	"github.com/chrislusf/seaweedfs/weed/security"
	"github.com/chrislusf/seaweedfs/weed/util"
	rt "github.com/chrislusf/seaweedfs/weed/zzverifrt"
)

// The master/volume stand-in: every assign hands out a fresh file id, every upload stores the bytes.
var verifC25Blobs map[string][]byte
var verifC25Assigned int

//verif:redirect (*github.com/chrislusf/seaweedfs/weed/server.FilerServer).assignNewFileInfo VerifC25_Assign
func VerifC25_Assign(fs *FilerServer, so *operation.StorageOption) (fileId, urlLocation string, auth security.EncodedJwt, err error) {
	verifC25Assigned++
	fileId = "7,0" + string(rune('0'+verifC25Assigned)) + "12345678" // canonical form: key byte, 8 cookie digits
	return fileId, fileId, "", nil
}

//verif:redirect (*github.com/chrislusf/seaweedfs/weed/server.FilerServer).doUpload VerifC25_DoUpload
func VerifC25_DoUpload(fs *FilerServer, urlLocation string, limitedReader io.Reader, fileName string, contentType string, pairMap map[string]string, auth security.EncodedJwt) (*operation.UploadResult, error, []byte) {
	data, err := ioutil.ReadAll(limitedReader)
	if err != nil {
		return nil, err, nil
	}
	verifC25Blobs[urlLocation] = data
	return &operation.UploadResult{Size: uint32(len(data))}, nil, data
}

// verifBody delivers the body in pieces of arbitrary size and can fail after failAt bytes.
type verifBody struct {
	data   []byte
	pos    int
	failAt int // -1: never
}

var verifBodyErr = errors.New("verif: body broke off")

func (b *verifBody) Read(p []byte) (int, error) {
	if b.failAt >= 0 && b.pos >= b.failAt {
		return 0, verifBodyErr
	}
	if b.pos >= len(b.data) {
		return 0, io.EOF
	}
	n := len(b.data) - b.pos
	if b.failAt >= 0 && b.failAt-b.pos < n {
		n = b.failAt - b.pos
	}
	if n > len(p) {
		n = len(p)
	}
	if n > 1 && rt.Bool("shortread") {
		n = 1
	}
	copy(p, b.data[b.pos:b.pos+n])
	b.pos += n
	return n, nil
}

func verifC25Server() *FilerServer {
	verifC25Blobs = map[string][]byte{}
	verifC25Assigned = 0
	f := filer.VhNewFiler(filer.VhNewMemStore())
	return &FilerServer{filer: f, option: &FilerOption{SaveToFilerLimit: int64(rt.Choice("inlinelimit", 3))}}
}

// verifC25Content reassembles what a reader of the entry would see.
func verifC25Content(content []byte, chunks []*filer_pb.FileChunk, size int64) ([]byte, bool) {
	if len(chunks) == 0 {
		return content, int64(len(content)) == size
	}
	out := make([]byte, size)
	covered := make([]bool, size)
	for _, c := range chunks {
		blob, ok := verifC25Blobs[c.GetFileIdString()]
		if !ok || uint64(len(blob)) != c.Size || c.Offset < 0 || c.Offset+int64(c.Size) > size {
			return nil, false
		}
		for i := range blob {
			if covered[c.Offset+int64(i)] {
				return nil, false
			}
			covered[c.Offset+int64(i)] = true
			out[c.Offset+int64(i)] = blob[i]
		}
	}
	for _, c := range covered {
		if !c {
			return nil, false
		}
	}
	return out, true
}

// C25 (upload): uploadReaderToChunks splits any body at any chunk size into chunks (or inline content)
// that reassemble to exactly the body; a body that breaks off is reported as an error.
func VerifC25_UploadReader() {
	fs := verifC25Server()
	n := rt.Len("bodylen", 0, rt.Param("body", 5))
	body := rt.Bytes("body", n)
	chunkSize := int32(1 + rt.Choice("chunksize", rt.Param("maxchunk", 3)))
	rt.Assume(fs.option.SaveToFilerLimit <= int64(chunkSize)) // the inline limit is meant for files far below the chunk size
	rd := &verifBody{data: body, failAt: -1}
	if rt.Bool("breaks") {
		rd.failAt = rt.Len("failat", 0, n)
		rt.Assume(rd.failAt < n)
	}
	q := ""
	if rt.Bool("append") {
		q = "op=append"
	}
	r := &http.Request{Method: "PUT", URL: &url.URL{Path: "/d/f", RawQuery: q}, Header: http.Header{}}
	chunks, _, total, err, small := fs.uploadReaderToChunks(&verifRespWriter{}, r, rd, chunkSize, "f", "", int64(n), &operation.StorageOption{})
	rt.Cover("uploaded")
	if rd.failAt >= 0 {
		rt.Assert(err != nil, "a-body-that-breaks-off-is-reported-as-failed")
		return
	}
	rt.Assert(err == nil, "upload-of-a-complete-body-succeeds")
	rt.Assert(total == int64(n), "reported-size-is-the-body-size")
	got, ok := verifC25Content(small, chunks, int64(n))
	rt.Assert(ok, "chunks-tile-the-body-exactly")
	if ok {
		rt.Assert(rt.BytesEq(got, body), "stored-bytes-equal-the-request-body")
	}
	for _, c := range chunks {
		rt.Assert(c.Size <= uint64(chunkSize), "no-chunk-exceeds-the-chunk-size")
	}
}

// C25 (write + append through saveMetaData): a PUT stores the body; an append to a chunked file puts
// the new bytes right after the current end.
func VerifC25_PutThenAppend() {
	fs := verifC25Server()
	ctx := context.Background()
	fs.filer.Store.InsertEntry(ctx, &filer.Entry{FullPath: "/d", Attr: filer.Attr{Mode: os.ModeDir | 0755}})
	chunkSize := int32(1 + rt.Choice("chunksize", rt.Param("maxchunk", 3)))
	rt.Assume(fs.option.SaveToFilerLimit <= int64(chunkSize))
	put := func(body []byte, query string) error {
		r := &http.Request{Method: "PUT", URL: &url.URL{Path: "/d/f", RawQuery: query}, Header: http.Header{}}
		so := &operation.StorageOption{}
		chunks, md5Hash, total, err, small := fs.uploadReaderToChunks(&verifRespWriter{}, r, &verifBody{data: body, failAt: -1}, chunkSize, "", "", int64(len(body)), so)
		if err != nil {
			return err
		}
		_, err = fs.saveMetaData(ctx, r, "", "", so, md5Hash.Sum(nil), chunks, total, small)
		return err
	}
	first := rt.Bytes("first", rt.Len("firstlen", 0, rt.Param("body", 4)))
	rt.Assert(put(first, "") == nil, "put-succeeds")
	e, err := fs.filer.FindEntry(ctx, util.FullPath("/d/f"))
	rt.Assert(err == nil && e != nil, "put-creates-the-entry")
	got, ok := verifC25Content(e.Content, e.Chunks, int64(e.Size()))
	rt.Assert(ok && rt.BytesEq(got, first), "put-stores-exactly-the-body")
	rt.Cover("put")
	if len(e.Content) > 0 {
		return // appending to an inline file is refused by the server (documented TODO)
	}
	second := rt.Bytes("second", rt.Len("secondlen", 1, rt.Param("body", 4)))
	rt.Assert(put(second, "op=append") == nil, "append-succeeds")
	e, err = fs.filer.FindEntry(ctx, util.FullPath("/d/f"))
	rt.Assert(err == nil && e != nil, "append-keeps-the-entry")
	want := append(append([]byte(nil), first...), second...)
	rt.Assert(int(e.Size()) == len(want), "append-grows-the-file-by-the-appended-bytes")
	got, ok = verifC25Content(e.Content, e.Chunks, int64(len(want)))
	rt.Assert(ok && rt.BytesEq(got, want), "append-places-the-bytes-right-after-the-old-end")
	rt.Cover("appended")
}
