package weed_server

import (
	"io"
	"net/http"
	"strconv"

	rt "github.com/chrislusf/seaweedfs/weed/zzverifrt"
)

type verifRespWriter struct {
	h      http.Header
	status int
	body   []byte
}

func (w *verifRespWriter) Header() http.Header {
	if w.h == nil {
		w.h = http.Header{}
	}
	return w.h
}
func (w *verifRespWriter) Write(b []byte) (int, error) {
	if w.status == 0 {
		w.status = 200
	}
	w.body = append(w.body, b...)
	return len(b), nil
}
func (w *verifRespWriter) WriteHeader(code int) {
	if w.status == 0 {
		w.status = code
	}
}

// verifRangeText: "bytes=" followed by n arbitrary bytes over the alphabet of range headers.
func verifRangeText(n int) string {
	s := rt.Str("range", n)
	for i := 0; i < n; i++ {
		c := s[i]
		rt.Assume(rt.Or(rt.And(c >= '0', c <= '9'), rt.Or(c == '-', rt.Or(c == ',', c == ' '))))
	}
	return "bytes=" + s
}

// C32 (parsing): every range that parseRange accepts lies inside the blob and is not empty.
func VerifC32_ParseRange() {
	size := int64(rt.U8("size"))
	rt.Assume(size <= 20)
	hdr := verifRangeText(rt.Len("len", 0, rt.Param("rangelen", 4)))
	ranges, err := parseRange(hdr, size)
	if err != nil {
		rt.Cover("rejected")
		return
	}
	rt.Cover("accepted")
	for _, r := range ranges {
		rt.Assert(rt.And(r.start >= 0, r.length >= 0), "range-start-and-length-non-negative")
		rt.Assert(r.start+r.length <= size, "range-inside-blob")
		rt.Assert(r.length > 0, "range-not-empty")
	}
}

// C32 (single range): the response to a request with one Range is 206 with exactly those bytes and a
// matching Content-Range / Content-Length, or 416, or 200 with the complete blob.
func VerifC32_RangeResponse() {
	n := rt.Len("size", 0, rt.Param("blob", 6))
	blob := rt.Bytes("blob", n)
	hdr := verifRangeText(rt.Len("len", 1, rt.Param("rangelen", 4)))
	for i := len("bytes="); i < len(hdr); i++ {
		rt.Assume(hdr[i] != ',') // several ranges: multipart/byteranges responses are outside the claim
	}
	r := &http.Request{Method: "GET", Header: http.Header{}}
	r.Header.Set("Range", hdr)
	w := &verifRespWriter{}
	processRangeRequest(r, w, int64(n), "application/octet-stream", func(writer io.Writer, offset int64, size int64) error {
		_, err := writer.Write(blob[offset : offset+size])
		return err
	})
	rt.Cover("responded")
	status := w.status
	if status == 0 {
		status = 200
	}
	switch status {
	case http.StatusRequestedRangeNotSatisfiable, http.StatusInternalServerError:
		return
	case http.StatusOK:
		rt.Assert(rt.BytesEq(w.body, blob), "full-response-carries-the-complete-blob")
		rt.Assert(w.Header().Get("Content-Length") == strconv.Itoa(n), "full-response-content-length")
	case http.StatusPartialContent:
		rt.Cover("partial")
		if w.Header().Get("Content-Type") != "" {
			return // multipart/byteranges: outside the claim
		}
		rt.Assert(len(w.body) > 0, "partial-response-not-empty")
		rt.Assert(w.Header().Get("Content-Length") == strconv.Itoa(len(w.body)), "partial-content-length-matches-body")
		// the body is the slice named by Content-Range
		found := false
		for start := 0; start < n; start++ {
			end := start + len(w.body) - 1
			if end < n && w.Header().Get("Content-Range") == "bytes "+strconv.Itoa(start)+"-"+strconv.Itoa(end)+"/"+strconv.Itoa(n) {
				found = true
				rt.Assert(rt.BytesEq(w.body, blob[start:end+1]), "partial-body-is-the-named-slice")
			}
		}
		rt.Assert(found, "content-range-names-a-slice-of-the-blob")
	default:
		rt.Assert(false, "unexpected-status")
	}
}
