package weed_server

import (
	"crypto/rand"
	"crypto/rsa"
	"net/http"
	"net/url"
	"strings"
	"time"

	"github.com/chrislusf/seaweedfs/weed/security"
	rt "github.com/chrislusf/seaweedfs/weed/zzverifrt"
	"github.com/golang-jwt/jwt"
)

// What the token presented in the request contains. Under the engine the token is an opaque
// handle and the two library leaves that touch its bytes (segment decoding in ParseUnverified,
// the MAC comparison in Verify) are replaced by the models below, which read this record; the
// rest of the library (ParseWithClaims, the key callback, StandardClaims.Valid, none.Verify)
// is the real code. At replay (rt.Native) a real token is built and signed from the same
// record and the whole real library runs.
var verifC34 struct {
	raw       string
	malformed bool
	alg       int // 0 HS256, 1 HS384, 2 none, 3 RS256
	signKey   []byte
	fid       string
	exp       int64
	iat       int64
	nbf       int64
}

const verifC34Handle = "aGVhZA.Y2xhaW1z.c2ln"

var verifC34Algs = []string{"HS256", "HS384", "none", "RS256"}

//verif:redirect (*github.com/golang-jwt/jwt.Parser).ParseUnverified VerifC34_ParseUnverified
func VerifC34_ParseUnverified(p *jwt.Parser, tokenString string, claims jwt.Claims) (*jwt.Token, []string, error) {
	if tokenString != verifC34.raw || verifC34.malformed {
		return nil, nil, jwt.NewValidationError("malformed", jwt.ValidationErrorMalformed)
	}
	token := &jwt.Token{Raw: tokenString}
	token.Claims = claims
	c, ok := claims.(*security.SeaweedFileIdClaims)
	if !ok {
		rt.Unsupported("claims type other than SeaweedFileIdClaims")
	}
	c.Fid = verifC34.fid
	c.ExpiresAt = verifC34.exp
	c.IssuedAt = verifC34.iat
	c.NotBefore = verifC34.nbf
	token.Method = jwt.GetSigningMethod(verifC34Algs[verifC34.alg])
	return token, []string{"aGVhZA", "Y2xhaW1z", "c2ln"}, nil
}

// HMAC is abstracted as collision free: the MAC matches exactly when the verification key is the key
// the token was signed with.
//
//verif:redirect (*github.com/golang-jwt/jwt.SigningMethodHMAC).Verify VerifC34_HMACVerify
func VerifC34_HMACVerify(m *jwt.SigningMethodHMAC, signingString, signature string, key interface{}) error {
	kb, ok := key.([]byte)
	if !ok {
		return jwt.ErrInvalidKeyType
	}
	if rt.BytesEq(kb, verifC34.signKey) {
		return nil
	}
	return jwt.ErrSignatureInvalid
}

//verif:redirect (*github.com/golang-jwt/jwt.SigningMethodRSA).Verify VerifC34_RSAVerify
func VerifC34_RSAVerify(m *jwt.SigningMethodRSA, signingString, signature string, key interface{}) error {
	if _, ok := key.(*rsa.PublicKey); !ok {
		return jwt.ErrInvalidKeyType
	}
	rt.Unsupported("RSA verification with an RSA key")
	return nil
}

func verifC34Alphabet(s string) {
	for i := 0; i < len(s); i++ {
		c := s[i]
		rt.Assume(rt.Or(rt.And(c >= '0', c <= '9'), rt.Or(rt.And(c >= 'a', c <= 'f'), rt.Or(c == '_', c == ','))))
	}
}

// verifC34Token draws the token contents and returns the token string. The draws are ordered so that
// a token already known to be rejected (malformed, foreign algorithm) does not multiply the cases
// that follow.
func verifC34Token(claimLens int) string {
	v := &verifC34
	v.malformed, v.alg, v.signKey, v.fid, v.exp, v.iat, v.nbf = false, 0, []byte{1, 2}, "", 0, 0, 0
	v.malformed = rt.Bool("malformed")
	if !v.malformed {
		v.alg = rt.Choice("alg", 4)
		v.signKey = rt.Bytes("signkey", 2)
		v.exp, v.iat, v.nbf = int64(rt.U32("exp")), int64(rt.U32("iat")), int64(rt.U32("nbf"))
		if v.alg <= 1 {
			v.fid = rt.Str("claimfid", rt.Len("claimfidlen", 0, claimLens))
			verifC34Alphabet(v.fid)
		}
	}
	v.raw = verifC34Handle
	if rt.Native() {
		claims := security.SeaweedFileIdClaims{Fid: v.fid, StandardClaims: jwt.StandardClaims{ExpiresAt: v.exp, IssuedAt: v.iat, NotBefore: v.nbf}}
		t := jwt.NewWithClaims(jwt.GetSigningMethod(verifC34Algs[v.alg]), claims)
		var key interface{} = v.signKey
		switch v.alg {
		case 2:
			key = jwt.UnsafeAllowNoneSignatureType
		case 3:
			k, err := rsa.GenerateKey(rand.Reader, 1024)
			if err != nil {
				panic(err)
			}
			key = k
		}
		s, err := t.SignedString(key)
		if err != nil {
			panic(err)
		}
		if v.malformed {
			s = s[:strings.LastIndex(s, ".")]
		}
		v.raw = s
	}
	return v.raw
}

// verifC34Request attaches the token the ways a client can: none, ?jwt=, Authorization: Bearer.
func verifC34Request(method, path string, claimLens int) (r *http.Request, present bool) {
	r = &http.Request{Method: method, URL: &url.URL{Path: path}, Header: http.Header{}, RemoteAddr: "c"}
	switch rt.Choice("carrier", 3) {
	case 1:
		r.URL.RawQuery = "jwt=" + verifC34Token(claimLens)
		return r, true
	case 2:
		r.Header.Set("Authorization", "Bearer "+verifC34Token(claimLens))
		return r, true
	}
	return r, false
}

// verifC34Expected is the decision the property states.
func verifC34Expected(key []byte, present bool, now int64, vid, fid string) bool {
	if len(key) == 0 {
		return true
	}
	v := &verifC34
	if !present || v.malformed || v.alg > 1 {
		return false
	}
	if !rt.BytesEq(key, v.signKey) {
		return false
	}
	if v.exp != 0 && now > v.exp {
		return false
	}
	if v.nbf != 0 && now < v.nbf {
		return false
	}
	if v.iat != 0 && now < v.iat {
		return false
	}
	base := fid
	for i := len(fid) - 1; i > 0; i-- {
		if fid[i] == '_' {
			base = fid[:i]
			break
		}
	}
	return v.fid == vid+","+base
}

func verifC34Guard() *security.Guard {
	g := &security.Guard{}
	if rt.Bool("writekey") {
		g.SigningKey = security.SigningKey(rt.Bytes("wkey", 2))
	}
	if rt.Bool("readkey") {
		g.ReadSigningKey = security.SigningKey(rt.Bytes("rkey", 2))
	}
	return g
}

func verifC34Clock() int64 {
	now := rt.Now()
	jwt.TimeFunc = func() time.Time { return now }
	return now.Unix()
}

// C34 (decision): maybeCheckJwtAuthorization admits a request exactly when no key is configured for
// the operation class, or the request carries a well-formed, unexpired HMAC token signed with that
// key whose fid claim is "<vid>,<fid without _suffix>".
func VerifC34_Decision() {
	vs := &VolumeServer{guard: verifC34Guard()}
	now := verifC34Clock()
	isWrite := rt.Bool("iswrite")
	key := []byte(vs.guard.ReadSigningKey)
	if isWrite {
		key = []byte(vs.guard.SigningKey)
	}
	claimLens := rt.Param("claimfid", 6)
	if len(key) == 0 {
		claimLens = 0
	}
	r, present := verifC34Request("GET", "/", claimLens)
	vid, fid := "3", "01"
	if len(key) != 0 && present && !verifC34.malformed && verifC34.alg <= 1 {
		vid = rt.Str("vid", rt.Len("vidlen", 1, 2))
		fid = rt.Str("fid", rt.Len("fidlen", 1, rt.Param("fid", 4)))
		verifC34Alphabet(vid)
		verifC34Alphabet(fid)
	}
	want := verifC34Expected(key, present, now, vid, fid)
	got := vs.maybeCheckJwtAuthorization(r, vid, fid, isWrite)
	if want {
		rt.Cover("admitted")
		rt.Assert(got, "valid-token-or-no-key-is-admitted")
	} else {
		rt.Cover("rejected")
		rt.Assert(!got, "request-without-valid-token-for-this-file-is-rejected")
	}
}

var verifC34Status int

//verif:redirect github.com/chrislusf/seaweedfs/weed/server.writeJsonError VerifC34_WriteJsonError
func VerifC34_WriteJsonError(w http.ResponseWriter, r *http.Request, httpStatus int, err error) {
	verifC34Status = httpStatus
	w.WriteHeader(httpStatus)
}

// C34 (handlers): a read, delete or upload that the property says must be rejected is answered 401
// before the store is touched (the volume server here has no store at all: any access would be a
// nil dereference).
func VerifC34_HandlersRejectBeforeData() {
	vs := &VolumeServer{guard: verifC34Guard()}
	now := verifC34Clock()
	vid := "3"
	fid := rt.Str("fid", rt.Len("fidlen", 2, rt.Param("fid", 4)))
	for i := 0; i < len(fid); i++ {
		c := fid[i]
		rt.Assume(rt.Or(rt.And(c >= '0', c <= '9'), rt.Or(rt.And(c >= 'a', c <= 'f'), c == '_')))
	}
	op := rt.Choice("op", 3)
	method := []string{"GET", "DELETE", "POST"}[op]
	key := []byte(vs.guard.ReadSigningKey)
	if op != 0 {
		key = []byte(vs.guard.SigningKey)
	}
	rt.Assume(len(key) != 0)
	r, present := verifC34Request(method, "/"+vid+","+fid, rt.Param("claimfid", 6))
	rt.Assume(!verifC34Expected(key, present, now, vid, fid))
	if op == 2 {
		r.Body = http.NoBody
	}
	w := &verifRespWriter{}
	verifC34Status = 0
	switch op {
	case 0:
		vs.GetOrHeadHandler(w, r)
	case 1:
		vs.DeleteHandler(w, r)
	case 2:
		vs.PostHandler(w, r)
	}
	rt.Cover("answered")
	rt.Assert(verifC34Status == http.StatusUnauthorized, "rejected-request-answered-401-before-data-access")
}
