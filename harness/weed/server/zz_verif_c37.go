package weed_server

import (
	"context"
	"io"

	"google.golang.org/grpc"

	"github.com/chrislusf/seaweedfs/weed/operation"
	"github.com/chrislusf/seaweedfs/weed/pb/volume_server_pb"
	"github.com/chrislusf/seaweedfs/weed/storage"
	rt "github.com/chrislusf/seaweedfs/weed/zzverifrt"
)

//verif:use github.com/chrislusf/seaweedfs/weed/operation
//verif:use github.com/chrislusf/seaweedfs/weed/storage

// The "network": the client call runs the real server handler and hands its responses to the client stream.
type verifCopyServerStream struct {
	grpc.ServerStream
	sent [][]byte
}

func (s *verifCopyServerStream) Send(r *volume_server_pb.VolumeIncrementalCopyResponse) error {
	s.sent = append(s.sent, append([]byte(nil), r.FileContent...)) // the wire copies the bytes
	return nil
}
func (s *verifCopyServerStream) Context() context.Context { return context.Background() }

type verifCopyClientStream struct {
	grpc.ClientStream
	items [][]byte
	pos   int
}

func (c *verifCopyClientStream) Recv() (*volume_server_pb.VolumeIncrementalCopyResponse, error) {
	if c.pos >= len(c.items) {
		return nil, io.EOF
	}
	c.pos++
	return &volume_server_pb.VolumeIncrementalCopyResponse{FileContent: c.items[c.pos-1]}, nil
}

type verifBackupSource struct {
	volume_server_pb.VolumeServerClient
	vs *VolumeServer
}

func (b *verifBackupSource) VolumeIncrementalCopy(ctx context.Context, in *volume_server_pb.VolumeIncrementalCopyRequest, opts ...grpc.CallOption) (volume_server_pb.VolumeServer_VolumeIncrementalCopyClient, error) {
	ss := &verifCopyServerStream{}
	if err := b.vs.VolumeIncrementalCopy(in, ss); err != nil {
		return nil, err
	}
	return &verifCopyClientStream{items: ss.sent}, nil
}

// C37 (no source compaction): after every round of uploads and deletes on the source volume followed
// by an incremental backup (real client side Volume.IncrementalBackup, real server side
// VolumeIncrementalCopy / BinarySearchByAppendAtNs), the backup volume serves exactly what the
// source serves.
func VerifC37_IncrementalBackup() {
	src := storage.VhNewFileVolume(rt.TempDir())
	dst := storage.VhNewFileVolume(rt.TempDir())
	vs := &VolumeServer{}
	vs.store = storage.VhStore(src)
	operation.VhVolumeServerClientHook = func(volumeServer string, fn func(volume_server_pb.VolumeServerClient) error) error {
		return fn(&verifBackupSource{vs: vs})
	}
	ids := []uint64{uint64(rt.U8("id0")), uint64(rt.U8("id1"))}
	rt.Assume(rt.And(ids[0] != 0, ids[0] < ids[1]))
	rounds := rt.Param("rounds", 2)
	for r := 0; r < rounds; r++ {
		for i, k := 0, rt.Len("ops", 0, rt.Param("ops", 2)); i < k; i++ {
			id := ids[rt.Choice("which", 2)]
			if rt.Bool("delete") {
				storage.VhDelete(src, id)
			} else {
				storage.VhPut(src, id, rt.Bytes("data", 1))
			}
		}
		err := dst.IncrementalBackup("source:8080", nil)
		rt.Assert(err == nil, "backup-run-succeeds")
		rt.Cover("backed-up")
		for _, id := range ids {
			sf, sd := storage.VhRead(src, id)
			df, dd := storage.VhRead(dst, id)
			rt.Assert(sf == df, "backup-serves-the-same-set-of-blobs")
			if sf && df {
				rt.Assert(rt.BytesEq(sd, dd), "backup-serves-identical-content")
			}
		}
	}
}

// C37 (with a source compaction): a backup, then more uploads and deletes and a vacuum of the source,
// then the procedure `weed backup` follows (weed/command/backup.go, restated here because it is a CLI
// flow: compare compaction revisions through the real VolumeSyncStatus handler, compact the backup
// locally and adopt the revision, start over when the backup is larger than the source, then the real
// incremental backup): the backup must serve exactly what the source serves.
func VerifC37_BackupAcrossCompaction() {
	src := storage.VhNewFileVolume(rt.TempDir())
	dstDir := rt.TempDir()
	dst := storage.VhNewFileVolume(dstDir)
	vs := &VolumeServer{}
	vs.store = storage.VhStore(src)
	operation.VhVolumeServerClientHook = func(volumeServer string, fn func(volume_server_pb.VolumeServerClient) error) error {
		return fn(&verifBackupSource{vs: vs})
	}
	ids := []uint64{uint64(rt.U8("id0")), uint64(rt.U8("id1"))}
	rt.Assume(rt.And(ids[0] != 0, ids[0] < ids[1]))
	ops := func(k int) {
		for i := 0; i < k; i++ {
			id := ids[rt.Choice("which", 2)]
			if rt.Bool("delete") {
				storage.VhDelete(src, id)
			} else {
				storage.VhPut(src, id, rt.Bytes("data", 1))
			}
		}
	}
	ops(rt.Len("ops1", 1, rt.Param("ops", 2)))
	rt.Assert(dst.IncrementalBackup("source:8080", nil) == nil, "backup-run-succeeds")
	ops(rt.Len("ops2", 0, rt.Param("ops", 2)))
	if verr := storage.VhVacuum(src); verr != nil {
		if rt.Native() {
			panic("vacuum: " + verr.Error())
		}
		rt.Assert(false, "source-vacuum-succeeds")
	}
	vs.store = storage.VhStore(src)
	ops(rt.Len("ops3", 0, 1))

	stats, err := vs.VolumeSyncStatus(context.Background(), &volume_server_pb.VolumeSyncStatusRequest{VolumeId: 1})
	rt.Assert(err == nil, "sync-status-succeeds")
	if storage.VhRevision(dst) < stats.CompactRevision {
		rt.Assert(storage.VhVacuum(dst) == nil, "local-compaction-succeeds")
		storage.VhAdoptRevision(dst, stats.CompactRevision)
	}
	if storage.VhDatSize(dst) > stats.TailOffset {
		dst = storage.VhNewFileVolume(dstDir) // destroy and recreate empty
	}
	rt.Assert(dst.IncrementalBackup("source:8080", nil) == nil, "backup-run-succeeds")
	rt.Cover("backed-up-after-compaction")
	for _, id := range ids {
		sf, sd := storage.VhRead(src, id)
		df, dd := storage.VhRead(dst, id)
		same := sf == df
		if sf && df {
			same = rt.BytesEq(sd, dd)
		}
		rt.Assert(same, "backup-serves-what-the-source-serves-after-source-compaction@known:backup-diverges-after-source-compaction")
	}
}
