package weed_server

import (
	"context"
	"os"
	"strings"

	"github.com/chrislusf/seaweedfs/weed/filer"
	"github.com/chrislusf/seaweedfs/weed/pb/filer_pb"
	"github.com/chrislusf/seaweedfs/weed/util"
	rt "github.com/chrislusf/seaweedfs/weed/zzverifrt"
)

//verif:use github.com/chrislusf/seaweedfs/weed/filer

// The path universe of the namespace harnesses, parents before children.
var verifNsPaths = []string{"/a", "/a/b", "/a/b/c", "/a/d", "/e", "/e/f"}

func verifNsParent(p string) string {
	i := strings.LastIndex(p, "/")
	if i <= 0 {
		return "/"
	}
	return p[:i]
}

type verifNs struct {
	store *filer.VhMemStore
	f     *filer.Filer
	fs    *FilerServer
	ctx   context.Context
}

// verifNsArbitrary builds an arbitrary well-formed namespace over the universe: every path is absent, a
// file or a directory, and present only under a directory. File i carries the content byte '0'+i.
func verifNsArbitrary() (*verifNs, map[string]string) { return verifNsArbitraryE(false) }

// verifNsArbitraryE: with allowEmpty, at most one of the files (an arbitrary one) is an empty file: no
// content, no chunks, size 0 - the shape a freshly created or truncated file has.
func verifNsArbitraryE(allowEmpty bool) (*verifNs, map[string]string) {
	emptyIdx := -1
	if allowEmpty {
		emptyIdx = rt.Choice("empty-file", len(verifNsPaths)+1) - 1
	}
	ns := &verifNs{store: filer.VhNewMemStore(), ctx: context.Background()}
	ns.f = filer.VhNewFiler(ns.store)
	ns.fs = &FilerServer{filer: ns.f}
	model := map[string]string{}
	for i, p := range verifNsPaths {
		parent := verifNsParent(p)
		if parent != "/" && model[parent] != "dir" {
			continue
		}
		switch rt.Choice("kind", 3) {
		case 1:
			if i == emptyIdx {
				model[p] = "file:::"
				ns.store.InsertEntry(ns.ctx, &filer.Entry{FullPath: util.FullPath(p), Attr: filer.Attr{Mode: 0644}})
				break
			}
			model[p] = "file:" + string(rune('0'+i)) + "::"
			ns.store.InsertEntry(ns.ctx, &filer.Entry{FullPath: util.FullPath(p), Attr: filer.Attr{Mode: 0644}, Content: []byte{byte('0' + i)}})
		case 2:
			model[p] = "dir"
			ns.store.InsertEntry(ns.ctx, &filer.Entry{FullPath: util.FullPath(p), Attr: filer.Attr{Mode: os.ModeDir | 0755}})
		}
	}
	return ns, model
}

func verifNsKeys(m map[string]string) []string {
	var ks []string
	for _, p := range []string{"/a", "/a/b", "/a/b/c", "/a/b/c/g", "/a/b/z", "/a/d", "/a/z", "/e", "/e/f", "/e/z", "/x", "/x/y", "/x/z", "/z"} {
		if _, ok := m[p]; ok {
			ks = append(ks, p)
		}
	}
	return ks
}

// verifNsWellFormed: every entry's parent exists and is a directory.
func verifNsWellFormed(desc map[string]string, paths []string) {
	for _, p := range paths {
		parent := verifNsParent(p)
		if parent != "/" {
			rt.Assert(desc[parent] == "dir", "every-entry-has-a-directory-parent")
		}
	}
}

func verifNsSame(a map[string]string, apaths []string, b map[string]string) bool {
	if len(apaths) != len(b) {
		return false
	}
	for _, p := range apaths {
		if a[p] != b[p] {
			return false
		}
	}
	return true
}

func verifUnder(p, dir string) bool { return p == dir || strings.HasPrefix(p, dir+"/") }

// C18 (create): CreateEntry from any well-formed namespace.
func VerifC18_Create() {
	ns, model := verifNsArbitraryE(true)
	path := []string{"/a", "/a/b", "/a/b/c", "/a/d", "/e", "/e/f", "/a/b/c/g", "/x/y"}[rt.Choice("path", 8)]
	isDir := rt.Bool("isdir")
	oExcl := rt.Bool("oexcl")
	entry := &filer.Entry{FullPath: util.FullPath(path), Attr: filer.Attr{Mode: 0644}, Content: []byte("N")}
	want := "file:N::"
	if isDir {
		entry = &filer.Entry{FullPath: util.FullPath(path), Attr: filer.Attr{Mode: os.ModeDir | 0755}}
		want = "dir"
	}
	err := ns.f.CreateEntry(ns.ctx, entry, oExcl, false, nil)
	paths, desc := ns.store.VhSnapshot()
	rt.Cover("created")
	verifNsWellFormed(desc, paths)
	old, existed := model[path]
	if existed && (oExcl || (old == "dir") != isDir) {
		rt.Assert(err != nil, "create-over-other-type-or-exclusive-fails")
	}
	// an ancestor that is a file makes the create fail
	for p := verifNsParent(path); p != "/"; p = verifNsParent(p) {
		if k, ok := model[p]; ok && k != "dir" {
			rt.Assert(err != nil, "create-under-a-file-fails")
		}
	}
	if err != nil {
		rt.Assert(verifNsSame(desc, paths, model), "failed-create-changes-nothing")
		return
	}
	rt.Assert(desc[path] == want, "created-entry-is-stored")
	for _, p := range paths {
		if p == path {
			continue
		}
		if oldk, ok := model[p]; ok {
			rt.Assert(desc[p] == oldk, "create-leaves-other-entries-alone")
		} else {
			rt.Assert(verifUnder(path, p) && desc[p] == "dir", "create-adds-only-missing-ancestor-directories")
		}
	}
	for _, p := range verifNsKeys(model) {
		_, still := desc[p]
		rt.Assert(still, "create-removes-nothing")
	}
}

// C18 (delete): DeleteEntryMetaAndData from any well-formed namespace.
func VerifC18_Delete() {
	ns, model := verifNsArbitrary()
	path := []string{"/a", "/a/b", "/a/b/c", "/a/d", "/e", "/e/f", "/x"}[rt.Choice("path", 7)]
	recursive := rt.Bool("recursive")
	err := ns.f.DeleteEntryMetaAndData(ns.ctx, util.FullPath(path), recursive, false, rt.Bool("deletechunks"), false, nil)
	paths, desc := ns.store.VhSnapshot()
	rt.Cover("deleted")
	verifNsWellFormed(desc, paths)
	kind, existed := model[path]
	hasChildren := false
	for _, p := range verifNsKeys(model) {
		if p != path && verifUnder(p, path) {
			hasChildren = true
		}
	}
	if !existed {
		rt.Assert(err != nil, "delete-of-missing-entry-fails")
	}
	if existed && kind == "dir" && hasChildren && !recursive {
		rt.Assert(err != nil, "non-recursive-delete-of-non-empty-directory-fails")
	}
	if err != nil {
		rt.Assert(verifNsSame(desc, paths, model), "failed-delete-changes-nothing")
		return
	}
	rt.Assert(existed, "delete-of-missing-entry-fails")
	for _, p := range verifNsKeys(model) {
		_, still := desc[p]
		if verifUnder(p, path) {
			rt.Assert(!still, "delete-removes-the-whole-subtree")
		} else {
			rt.Assert(still && desc[p] == model[p], "delete-leaves-other-entries-alone")
		}
	}
	for _, p := range paths {
		_, was := model[p]
		rt.Assert(was, "delete-adds-nothing")
	}
}

// C18 (rename): AtomicRenameEntry from any well-formed namespace.
func VerifC18_Rename() {
	ns, model := verifNsArbitrary()
	src := verifNsPaths[rt.Choice("src", len(verifNsPaths))]
	newParent := []string{"/", "/a", "/a/b", "/e", "/a/b/c", "/x"}[rt.Choice("newparent", 6)]
	oldParent, oldName := verifNsParent(src), src[strings.LastIndex(src, "/")+1:]
	newName := oldName
	if rt.Bool("rename") {
		newName = "z"
	}
	dst := string(util.FullPath(newParent).Child(newName))
	_, err := ns.fs.AtomicRenameEntry(ns.ctx, &filer_pb.AtomicRenameEntryRequest{OldDirectory: oldParent, OldName: oldName, NewDirectory: newParent, NewName: newName})
	paths, desc := ns.store.VhSnapshot()
	rt.Cover("renamed")
	verifNsWellFormed(desc, paths)
	kind, existed := model[src]
	if !existed {
		rt.Assert(err != nil, "rename-of-missing-entry-fails")
		rt.Assert(verifNsSame(desc, paths, model), "failed-rename-of-missing-entry-changes-nothing")
		return
	}
	if kind == "dir" && dst != src && verifUnder(dst, src) {
		rt.Assert(err != nil, "rename-of-directory-into-itself-is-refused")
		rt.Assert(verifNsSame(desc, paths, model), "refused-rename-changes-nothing")
		return
	}
	if err != nil {
		// a rename that fails for another reason (type clash at the target): nothing may be lost
		for _, p := range verifNsKeys(model) {
			if model[p] != "dir" {
				found := false
				for _, q := range paths {
					if desc[q] == model[p] {
						found = true
					}
				}
				rt.Assert(found, "failed-rename-loses-no-file")
			}
		}
		return
	}
	if dst == src {
		rt.Assert(verifNsSame(desc, paths, model), "rename-onto-itself-changes-nothing")
		return
	}
	images := map[string]bool{}
	for _, p := range verifNsKeys(model) {
		if verifUnder(p, src) {
			img := dst + p[len(src):]
			images[img] = true
			rt.Assert(desc[img] == model[p], "rename-moves-the-whole-subtree")
		}
	}
	for _, p := range verifNsKeys(model) {
		_, still := desc[p]
		if verifUnder(p, src) {
			if !images[p] {
				rt.Assert(!still, "rename-leaves-no-copy-behind")
			}
		} else if !images[p] && !verifUnder(p, dst) {
			rt.Assert(still && desc[p] == model[p], "rename-leaves-other-entries-alone")
		}
	}
	// file contents are neither lost nor duplicated
	for _, p := range verifNsKeys(model) {
		if model[p] != "dir" && !verifUnder(p, dst) {
			n := 0
			for _, q := range paths {
				if desc[q] == model[p] {
					n++
				}
			}
			rt.Assert(n == 1, "rename-neither-loses-nor-duplicates-files")
		}
	}
}
