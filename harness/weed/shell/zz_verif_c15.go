package shell

import (
	"github.com/chrislusf/seaweedfs/weed/pb/master_pb"
	"github.com/chrislusf/seaweedfs/weed/storage/super_block"
	rt "github.com/chrislusf/seaweedfs/weed/zzverifrt"
)

// The cluster universe: data centers x racks x nodes, all with distinct ids.
var verifDcs = []string{"dcA", "dcB", "dcC"}
var verifRacks = []string{"r1", "r2", "r3"}

type verifLoc struct{ dc, rack, node int }

func (l verifLoc) id() string {
	return verifDcs[l.dc] + "-" + verifRacks[l.rack] + "-n" + string(rune('1'+l.node))
}

func verifPickLoc(ndc, nrack, nnode int) verifLoc {
	return verifLoc{rt.Choice("dc", ndc), rt.Choice("rack", nrack), rt.Choice("node", nnode)}
}

func verifDataNode(l verifLoc) *master_pb.DataNodeInfo {
	return &master_pb.DataNodeInfo{Id: l.id(), DiskInfos: map[string]*master_pb.DiskInfo{"": {MaxVolumeCount: 8, VolumeCount: 1}}}
}

func verifReplica(l verifLoc) *VolumeReplica {
	loc := newLocation(verifDcs[l.dc], verifRacks[l.rack], verifDataNode(l))
	return &VolumeReplica{location: &loc, info: &master_pb.VolumeInformationMessage{Id: 7}}
}

// verifFits: the copies can be completed to a layout the replication setting xyz describes: a main
// data center with a main rack of z+1 copies on distinct servers plus y further racks with one copy
// each, and x further data centers with one copy each.
func verifFits(x, y, z int, locs []verifLoc) bool {
	for i := range locs {
		for j := range locs {
			if i != j && locs[i] == locs[j] {
				return false // two copies on one server
			}
		}
	}
	if len(locs) == 0 {
		return true
	}
	for d := 0; d < len(verifDcs); d++ {
		for r := 0; r < len(verifRacks); r++ {
			ok := true
			otherDc := map[int]int{}
			otherRack := map[int]int{}
			inMain := 0
			for _, l := range locs {
				switch {
				case l.dc != d:
					otherDc[l.dc]++
				case l.rack != r:
					otherRack[l.rack]++
				default:
					inMain++
				}
			}
			if len(otherDc) > x || len(otherRack) > y || inMain > z+1 {
				ok = false
			}
			for _, c := range otherDc {
				if c > 1 {
					ok = false
				}
			}
			for _, c := range otherRack {
				if c > 1 {
					ok = false
				}
			}
			if ok {
				return true
			}
		}
	}
	return false
}

func verifPlacement() (x, y, z int, rp *super_block.ReplicaPlacement) {
	x, y, z = rt.Choice("x", 3), rt.Choice("y", 3), rt.Choice("z", 3)
	rt.Assume(x+y+z >= 1 && x+y+z <= rt.Param("maxextra", 3))
	rp, err := super_block.NewReplicaPlacementFromByte(byte(x*100 + y*10 + z))
	if err != nil {
		panic(err)
	}
	return
}

// C15 (balance): a move that isGoodMove accepts for a volume whose copies satisfy the replication
// setting puts the copy on a server that holds none, and the copies satisfy the setting afterwards.
func VerifC15_IsGoodMove() {
	x, y, z, rp := verifPlacement()
	n := x + y + z + 1
	ndc, nrack, nnode := rt.Param("dcs", 2), rt.Param("racks", 2), rt.Param("nodes", 2)
	var locs []verifLoc
	var replicas []*VolumeReplica
	for i := 0; i < n; i++ {
		l := verifPickLoc(ndc, nrack, nnode)
		locs = append(locs, l)
		replicas = append(replicas, verifReplica(l))
	}
	rt.Assume(verifFits(x, y, z, locs)) // the volume is correctly placed before the move
	si := rt.Choice("source", n)
	t := verifPickLoc(ndc, nrack, nnode)
	src := &Node{info: replicas[si].location.dataNode, dc: verifDcs[locs[si].dc], rack: verifRacks[locs[si].rack]}
	tgt := &Node{info: verifDataNode(t), dc: verifDcs[t.dc], rack: verifRacks[t.rack]}
	good := isGoodMove(rp, replicas, src, tgt)
	rt.Cover("decided")
	if !good {
		return
	}
	rt.Cover("accepted")
	var after []verifLoc
	for i, l := range locs {
		rt.Assert(l != t, "move-target-holds-no-copy-of-the-volume")
		if i != si {
			after = append(after, l)
		}
	}
	after = append(after, t)
	rt.Assert(verifFits(x, y, z, after), "replication-setting-still-satisfied-after-the-move")
}

// C15 (replica repair): a location satisfyReplicaPlacement accepts for an under-replicated volume
// holds no copy yet, and the copies including the new one can be completed to the replication setting.
func VerifC15_SatisfyReplicaPlacement() {
	x, y, z, rp := verifPlacement()
	full := x + y + z + 1
	n := 1 + rt.Choice("have", full-1)
	ndc, nrack, nnode := rt.Param("dcs", 2), rt.Param("racks", 2), rt.Param("nodes", 2)
	var locs []verifLoc
	var replicas []*VolumeReplica
	for i := 0; i < n; i++ {
		l := verifPickLoc(ndc, nrack, nnode)
		locs = append(locs, l)
		replicas = append(replicas, verifReplica(l))
	}
	rt.Assume(verifFits(x, y, z, locs)) // what is left of a correctly placed volume
	t := verifPickLoc(ndc, nrack, nnode)
	ok := satisfyReplicaPlacement(rp, replicas, newLocation(verifDcs[t.dc], verifRacks[t.rack], verifDataNode(t)))
	rt.Cover("decided")
	if !ok {
		return
	}
	rt.Cover("accepted")
	for _, l := range locs {
		rt.Assert(l != t, "repair-target-holds-no-copy-of-the-volume")
	}
	rt.Assert(verifFits(x, y, z, append(append([]verifLoc(nil), locs...), t)), "repair-copy-satisfies-the-replication-setting")
}

type verifMove struct {
	vid      uint32
	from, to string
}

var verifMoves []verifMove

//verif:redirect github.com/chrislusf/seaweedfs/weed/shell.moveVolume VerifC15_MoveVolume
func VerifC15_MoveVolume(commandEnv *CommandEnv, v *master_pb.VolumeInformationMessage, fullNode *Node, emptyNode *Node, applyChange bool) error {
	verifMoves = append(verifMoves, verifMove{v.Id, fullNode.info.Id, emptyNode.info.Id})
	return nil
}

// C15 (balance plan): every step of a volume.balance plan over a small cluster (servers with 1..3
// slots holding writable and read-only volumes without replication) goes to a server that has a
// free slot at that moment and does not hold the volume.
func VerifC15_BalancePlan() {
	nn := rt.Param("servers", 3)
	var nodes []*Node
	used := map[string]int{}
	max := map[string]int{}
	holds := map[string]map[uint32]bool{}
	vid := uint32(0)
	for i := 0; i < nn; i++ {
		id := "n" + string(rune('1'+i))
		m := 1 + rt.Choice("slots", 3)
		w := rt.Choice("writable", 3)
		ro := rt.Choice("readonly", 3)
		rt.Assume(w+ro <= m)
		di := &master_pb.DiskInfo{MaxVolumeCount: uint64(m), VolumeCount: uint64(w + ro)}
		holds[id] = map[uint32]bool{}
		for k := 0; k < w+ro; k++ {
			vid++
			di.VolumeInfos = append(di.VolumeInfos, &master_pb.VolumeInformationMessage{Id: vid, Size: 10, ReadOnly: k >= w})
			holds[id][vid] = true
		}
		nodes = append(nodes, &Node{info: &master_pb.DataNodeInfo{Id: id, DiskInfos: map[string]*master_pb.DiskInfo{"": di}}, dc: "dc", rack: "r"})
		used[id], max[id] = w+ro, m
	}
	verifMoves = nil
	err := balanceVolumeServersByDiskType(nil, "", map[uint32][]*VolumeReplica{}, nodes, 1000, "ALL_COLLECTIONS", false)
	rt.Cover("planned")
	rt.Assert(err == nil, "planning-succeeds")
	rt.Assert(len(verifMoves) <= 3*int(vid)+3, "plan-terminates")
	for _, mv := range verifMoves {
		rt.Assert(holds[mv.from][mv.vid], "moved-volume-is-on-its-source")
		rt.Assert(!holds[mv.to][mv.vid], "move-target-holds-no-copy-of-the-volume")
		rt.Assert(used[mv.to] < max[mv.to], "move-target-has-a-free-slot")
		delete(holds[mv.from], mv.vid)
		holds[mv.to][mv.vid] = true
		used[mv.from]--
		used[mv.to]++
	}
}

// C15 (balance plan with replicated volumes): a cluster of four servers on three racks (A and D on r1,
// B on r2, C on r3) built as a master topology snapshot and read through the real
// collectVolumeServersByDc / collectVolumeReplicaLocations; two unreplicated volumes anywhere and one
// volume with replication 010 on any two servers in different racks. Every step of the plan keeps the
// replicated volume on two servers in different racks, moves a copy that is where the plan thinks it
// is, and goes to a server with a free slot that does not hold the volume.
func VerifC15_BalancePlanReplicated() {
	type srv struct{ rack, id string }
	servers := []srv{{"r1", "A"}, {"r1", "D"}, {"r2", "B"}, {"r3", "C"}}
	disk := map[string]*master_pb.DiskInfo{}
	max := map[string]int{}
	for _, s := range servers {
		m := 2 + rt.Choice("slots", 2)
		disk[s.id] = &master_pb.DiskInfo{MaxVolumeCount: uint64(m)}
		max[s.id] = m
	}
	holds := map[string]map[uint32]bool{"A": {}, "B": {}, "C": {}, "D": {}}
	place := func(vid uint32, rp uint32, id string) {
		disk[id].VolumeInfos = append(disk[id].VolumeInfos, &master_pb.VolumeInformationMessage{Id: vid, Size: 10, ReplicaPlacement: rp})
		disk[id].VolumeCount++
		holds[id][vid] = true
	}
	place(1, 0, servers[rt.Choice("v1", 4)].id)
	place(3, 0, servers[rt.Choice("v3", 4)].id)
	pairs := [][2]string{{"A", "B"}, {"A", "C"}, {"D", "B"}, {"D", "C"}, {"B", "C"}}
	pr := pairs[rt.Choice("v2", 5)]
	place(2, 10, pr[0])
	place(2, 10, pr[1])
	for _, s := range servers {
		rt.Assume(int(disk[s.id].VolumeCount) <= max[s.id])
	}
	rackInfo := func(rack string) *master_pb.RackInfo {
		r := &master_pb.RackInfo{Id: rack}
		for _, s := range servers {
			if s.rack == rack {
				r.DataNodeInfos = append(r.DataNodeInfos, &master_pb.DataNodeInfo{Id: s.id, DiskInfos: map[string]*master_pb.DiskInfo{"": disk[s.id]}})
			}
		}
		return r
	}
	topo := &master_pb.TopologyInfo{DataCenterInfos: []*master_pb.DataCenterInfo{{Id: "dc1", RackInfos: []*master_pb.RackInfo{rackInfo("r1"), rackInfo("r2"), rackInfo("r3")}}}}
	nodes := collectVolumeServersByDc(topo, "")
	replicas, _ := collectVolumeReplicaLocations(topo)
	verifMoves = nil
	err := balanceVolumeServersByDiskType(nil, "", replicas, nodes, 1000, "ALL_COLLECTIONS", false)
	rt.Cover("planned")
	rt.Assert(err == nil, "planning-succeeds")
	rackOf := map[string]string{"A": "r1", "D": "r1", "B": "r2", "C": "r3"}
	used := map[string]int{}
	for id, h := range holds {
		used[id] = len(h)
	}
	for _, mv := range verifMoves {
		rt.Assert(holds[mv.from][mv.vid], "moved-volume-is-on-its-source")
		rt.Assert(!holds[mv.to][mv.vid], "move-target-holds-no-copy-of-the-volume")
		rt.Assert(used[mv.to] < max[mv.to], "move-target-has-a-free-slot")
		delete(holds[mv.from], mv.vid)
		holds[mv.to][mv.vid] = true
		used[mv.from]--
		used[mv.to]++
		var racks []string
		for _, s := range servers {
			if holds[s.id][2] {
				racks = append(racks, rackOf[s.id])
			}
		}
		rt.Assert(len(racks) == 2 && racks[0] != racks[1], "replicated-volume-stays-on-two-racks")
	}
}

// C15 (plan bookkeeping, one step): recording a planned move changes the recorded location of the moved
// volume's copy on the source server and of nothing else - the later decisions of the same plan
// (isGoodMove, satisfyReplicaPlacement) read these records. The replica records are built by the
// real collectVolumeReplicaLocations.
func VerifC15_AdjustAfterMove() {
	ids := []string{"A", "D", "B", "C"}
	racks := map[string]string{"A": "r1", "D": "r1", "B": "r2", "C": "r3"}
	disk := map[string]*master_pb.DiskInfo{}
	for _, id := range ids {
		disk[id] = &master_pb.DiskInfo{MaxVolumeCount: 5}
	}
	nvol := rt.Param("volumes", 2)
	where := map[uint32][]string{}
	for v := uint32(1); v <= uint32(nvol); v++ {
		first := rt.Choice("first", 4)
		where[v] = append(where[v], ids[first])
		if rt.Bool("replicated") {
			second := rt.Choice("second", 4)
			rt.Assume(second != first)
			where[v] = append(where[v], ids[second])
		}
		for _, id := range where[v] {
			disk[id].VolumeInfos = append(disk[id].VolumeInfos, &master_pb.VolumeInformationMessage{Id: v, Size: 10})
		}
	}
	rackInfo := func(rack string) *master_pb.RackInfo {
		r := &master_pb.RackInfo{Id: rack}
		for _, id := range ids {
			if racks[id] == rack {
				r.DataNodeInfos = append(r.DataNodeInfos, &master_pb.DataNodeInfo{Id: id, DiskInfos: map[string]*master_pb.DiskInfo{"": disk[id]}})
			}
		}
		return r
	}
	topo := &master_pb.TopologyInfo{DataCenterInfos: []*master_pb.DataCenterInfo{{Id: "dc1", RackInfos: []*master_pb.RackInfo{rackInfo("r1"), rackInfo("r2"), rackInfo("r3")}}}}
	nodes := collectVolumeServersByDc(topo, "")
	replicas, _ := collectVolumeReplicaLocations(topo)
	byId := map[string]*Node{}
	for _, n := range nodes {
		n.selectVolumes(func(v *master_pb.VolumeInformationMessage) bool { return true })
		byId[n.info.Id] = n
	}
	moved := uint32(1 + rt.Choice("moved", nvol))
	from := where[moved][rt.Choice("fromcopy", len(where[moved]))]
	to := ids[rt.Choice("to", 4)]
	for _, id := range where[moved] {
		rt.Assume(id != to)
	}
	adjustAfterMove(byId[from].selectedVolumes[moved], replicas, byId[from], byId[to])
	rt.Cover("recorded")
	for v, locs := range where {
		var want []string
		for _, id := range locs {
			if v == moved && id == from {
				id = to
			}
			want = append(want, id)
		}
		rt.Assert(len(replicas[v]) == len(want), "replica-records-keep-their-count")
		for _, id := range want {
			found := false
			for _, r := range replicas[v] {
				if r.location.dataNode.Id == id && r.location.rack == racks[id] && r.location.dc == "dc1" {
					found = true
				}
			}
			rt.Assert(found, "planned-move-changes-only-the-moved-copy-in-the-records")
		}
	}
}
