package shell

import (
	"github.com/chrislusf/seaweedfs/weed/pb/master_pb"
	"github.com/chrislusf/seaweedfs/weed/storage/super_block"
	rt "github.com/chrislusf/seaweedfs/weed/zzverifrt"
)

// The cluster universe: data centers x racks x nodes, all with distinct ids.
var verifDcs = []string{"dcA", "dcB", "dcC"}
var verifRacks = []string{"r1", "r2", "r3"}

type verifLoc struct{ dc, rack, node int }

func (l verifLoc) id() string {
	return verifDcs[l.dc] + "-" + verifRacks[l.rack] + "-n" + string(rune('1'+l.node))
}

func verifPickLoc(ndc, nrack, nnode int) verifLoc {
	return verifLoc{rt.Choice("dc", ndc), rt.Choice("rack", nrack), rt.Choice("node", nnode)}
}

func verifDataNode(l verifLoc) *master_pb.DataNodeInfo {
	return &master_pb.DataNodeInfo{Id: l.id(), DiskInfos: map[string]*master_pb.DiskInfo{"": {MaxVolumeCount: 8, VolumeCount: 1}}}
}

func verifReplica(l verifLoc) *VolumeReplica {
	loc := newLocation(verifDcs[l.dc], verifRacks[l.rack], verifDataNode(l))
	return &VolumeReplica{location: &loc, info: &master_pb.VolumeInformationMessage{Id: 7}}
}

// verifFits: the copies can be completed to a layout the replication setting xyz describes: a main
// data center with a main rack of z+1 copies on distinct servers plus y further racks with one copy
// each, and x further data centers with one copy each.
func verifFits(x, y, z int, locs []verifLoc) bool {
	for i := range locs {
		for j := range locs {
			if i != j && locs[i] == locs[j] {
				return false // two copies on one server
			}
		}
	}
	if len(locs) == 0 {
		return true
	}
	for d := 0; d < len(verifDcs); d++ {
		for r := 0; r < len(verifRacks); r++ {
			ok := true
			otherDc := map[int]int{}
			otherRack := map[int]int{}
			inMain := 0
			for _, l := range locs {
				switch {
				case l.dc != d:
					otherDc[l.dc]++
				case l.rack != r:
					otherRack[l.rack]++
				default:
					inMain++
				}
			}
			if len(otherDc) > x || len(otherRack) > y || inMain > z+1 {
				ok = false
			}
			for _, c := range otherDc {
				if c > 1 {
					ok = false
				}
			}
			for _, c := range otherRack {
				if c > 1 {
					ok = false
				}
			}
			if ok {
				return true
			}
		}
	}
	return false
}

func verifPlacement() (x, y, z int, rp *super_block.ReplicaPlacement) {
	x, y, z = rt.Choice("x", 3), rt.Choice("y", 3), rt.Choice("z", 3)
	rt.Assume(x+y+z >= 1 && x+y+z <= rt.Param("maxextra", 3))
	rp, err := super_block.NewReplicaPlacementFromByte(byte(x*100 + y*10 + z))
	if err != nil {
		panic(err)
	}
	return
}

// C15 (balance): a move that isGoodMove accepts for a volume whose copies satisfy the replication
// setting puts the copy on a server that holds none, and the copies satisfy the setting afterwards.
func VerifC15_IsGoodMove() {
	x, y, z, rp := verifPlacement()
	n := x + y + z + 1
	ndc, nrack, nnode := rt.Param("dcs", 2), rt.Param("racks", 2), rt.Param("nodes", 2)
	var locs []verifLoc
	var replicas []*VolumeReplica
	for i := 0; i < n; i++ {
		l := verifPickLoc(ndc, nrack, nnode)
		locs = append(locs, l)
		replicas = append(replicas, verifReplica(l))
	}
	rt.Assume(verifFits(x, y, z, locs)) // the volume is correctly placed before the move
	si := rt.Choice("source", n)
	t := verifPickLoc(ndc, nrack, nnode)
	src := &Node{info: replicas[si].location.dataNode, dc: verifDcs[locs[si].dc], rack: verifRacks[locs[si].rack]}
	tgt := &Node{info: verifDataNode(t), dc: verifDcs[t.dc], rack: verifRacks[t.rack]}
	good := isGoodMove(rp, replicas, src, tgt)
	rt.Cover("decided")
	if !good {
		return
	}
	rt.Cover("accepted")
	var after []verifLoc
	for i, l := range locs {
		rt.Assert(l != t, "move-target-holds-no-copy-of-the-volume")
		if i != si {
			after = append(after, l)
		}
	}
	after = append(after, t)
	rt.Assert(verifFits(x, y, z, after), "replication-setting-still-satisfied-after-the-move")
}

// C15 (replica repair): a location satisfyReplicaPlacement accepts for an under-replicated volume
// holds no copy yet, and the copies including the new one can be completed to the replication setting.
func VerifC15_SatisfyReplicaPlacement() {
	x, y, z, rp := verifPlacement()
	full := x + y + z + 1
	n := 1 + rt.Choice("have", full-1)
	ndc, nrack, nnode := rt.Param("dcs", 2), rt.Param("racks", 2), rt.Param("nodes", 2)
	var locs []verifLoc
	var replicas []*VolumeReplica
	for i := 0; i < n; i++ {
		l := verifPickLoc(ndc, nrack, nnode)
		locs = append(locs, l)
		replicas = append(replicas, verifReplica(l))
	}
	rt.Assume(verifFits(x, y, z, locs)) // what is left of a correctly placed volume
	t := verifPickLoc(ndc, nrack, nnode)
	ok := satisfyReplicaPlacement(rp, replicas, newLocation(verifDcs[t.dc], verifRacks[t.rack], verifDataNode(t)))
	rt.Cover("decided")
	if !ok {
		return
	}
	rt.Cover("accepted")
	for _, l := range locs {
		rt.Assert(l != t, "repair-target-holds-no-copy-of-the-volume")
	}
	rt.Assert(verifFits(x, y, z, append(append([]verifLoc(nil), locs...), t)), "repair-copy-satisfies-the-replication-setting")
}

type verifMove struct {
	vid      uint32
	from, to string
}

var verifMoves []verifMove

//verif:redirect github.com/chrislusf/seaweedfs/weed/shell.moveVolume VerifC15_MoveVolume
func VerifC15_MoveVolume(commandEnv *CommandEnv, v *master_pb.VolumeInformationMessage, fullNode *Node, emptyNode *Node, applyChange bool) error {
	verifMoves = append(verifMoves, verifMove{v.Id, fullNode.info.Id, emptyNode.info.Id})
	return nil
}

// C15 (balance plan): every step of a volume.balance plan over a small cluster (servers with 1..3
// slots holding writable and read-only volumes without replication) goes to a server that has a
// free slot at that moment and does not hold the volume.
func VerifC15_BalancePlan() {
	nn := rt.Param("servers", 3)
	var nodes []*Node
	used := map[string]int{}
	max := map[string]int{}
	holds := map[string]map[uint32]bool{}
	vid := uint32(0)
	for i := 0; i < nn; i++ {
		id := "n" + string(rune('1'+i))
		m := 1 + rt.Choice("slots", 3)
		w := rt.Choice("writable", 3)
		ro := rt.Choice("readonly", 3)
		rt.Assume(w+ro <= m)
		di := &master_pb.DiskInfo{MaxVolumeCount: uint64(m), VolumeCount: uint64(w + ro)}
		holds[id] = map[uint32]bool{}
		for k := 0; k < w+ro; k++ {
			vid++
			di.VolumeInfos = append(di.VolumeInfos, &master_pb.VolumeInformationMessage{Id: vid, Size: 10, ReadOnly: k >= w})
			holds[id][vid] = true
		}
		nodes = append(nodes, &Node{info: &master_pb.DataNodeInfo{Id: id, DiskInfos: map[string]*master_pb.DiskInfo{"": di}}, dc: "dc", rack: "r"})
		used[id], max[id] = w+ro, m
	}
	verifMoves = nil
	err := balanceVolumeServersByDiskType(nil, "", map[uint32][]*VolumeReplica{}, nodes, 1000, "ALL_COLLECTIONS", false)
	rt.Cover("planned")
	rt.Assert(err == nil, "planning-succeeds")
	rt.Assert(len(verifMoves) <= 3*int(vid)+3, "plan-terminates")
	for _, mv := range verifMoves {
		rt.Assert(holds[mv.from][mv.vid], "moved-volume-is-on-its-source")
		rt.Assert(!holds[mv.to][mv.vid], "move-target-holds-no-copy-of-the-volume")
		rt.Assert(used[mv.to] < max[mv.to], "move-target-has-a-free-slot")
		delete(holds[mv.from], mv.vid)
		holds[mv.to][mv.vid] = true
		used[mv.from]--
		used[mv.to]++
	}
}
