package shell

import (
	"github.com/chrislusf/seaweedfs/weed/pb/master_pb"
	"github.com/chrislusf/seaweedfs/weed/storage/erasure_coding"
	"github.com/chrislusf/seaweedfs/weed/storage/needle"
	rt "github.com/chrislusf/seaweedfs/weed/zzverifrt"
)

const verifEcVid = 5

// Every planned shard move is looked at before its bookkeeping is applied.
//
//verif:observe github.com/chrislusf/seaweedfs/weed/shell.moveMountedShardToEcNode VerifC16_ObserveMove
func VerifC16_ObserveMove(commandEnv *CommandEnv, existingLocation *EcNode, collection string, vid needle.VolumeId, shardId erasure_coding.ShardId, destinationEcNode *EcNode, applyBalancing bool) (err error) {
	rt.Cover("move-planned")
	rt.Assert(existingLocation.info.Id != destinationEcNode.info.Id, "shard-moves-to-another-server")
	rt.Assert(!findEcVolumeShards(destinationEcNode, vid).HasShardId(shardId), "shard-not-planned-onto-a-server-that-holds-it")
	rt.Assert(destinationEcNode.freeEcSlot > 0, "shard-not-planned-onto-a-server-without-free-slot")
	return nil
}

// C16: ec.balance (dry run) over every layout of one EC volume's 14 shards on a few servers in up
// to three racks (contiguous shard ranges of every size per server, optionally one duplicated
// shard, every combination of no / few / plenty free slots).
func VerifC16_EcBalance() {
	nn := rt.Param("servers", 3)
	nracks := rt.Param("racks", 2)
	var nodes []*EcNode
	next := 0
	withDup := rt.Choice("duplicate", 2) == 1
	for i := 0; i < nn; i++ {
		n := rt.Choice("count", erasure_coding.TotalShardsCount+1)
		if rt.Param("coarse", 0) == 1 {
			// larger clusters: only empty, half and full shares per server
			rt.Assume(n == 0 || n == 7 || n == erasure_coding.TotalShardsCount)
		}
		if i == nn-1 {
			rt.Assume(n == erasure_coding.TotalShardsCount-next)
		}
		rt.Assume(next+n <= erasure_coding.TotalShardsCount)
		var bits erasure_coding.ShardBits
		for s := next; s < next+n; s++ {
			bits = bits.AddShardId(erasure_coding.ShardId(s))
		}
		next += n
		if withDup && i == nn-1 && !bits.HasShardId(0) {
			bits = bits.AddShardId(0) // a second copy of shard 0
		}
		di := &master_pb.DiskInfo{}
		if bits != 0 {
			di.EcShardInfos = []*master_pb.VolumeEcShardInformationMessage{{Id: verifEcVid, Collection: "c", EcIndexBits: uint32(bits)}}
		}
		free := []int{0, 2, 20}[rt.Choice("free", 3)]
		rack := 0
		if i > 0 {
			rack = rt.Choice("rack", nracks)
		}
		nodes = append(nodes, &EcNode{
			info:       &master_pb.DataNodeInfo{Id: "n" + string(rune('1'+i)), DiskInfos: map[string]*master_pb.DiskInfo{"": di}},
			dc:         "dc",
			rack:       RackId("r" + string(rune('1'+rack))),
			freeEcSlot: free,
		})
	}
	copies := func() (perShard [erasure_coding.TotalShardsCount]int, perRack map[RackId]int) {
		perRack = map[RackId]int{}
		for _, n := range nodes {
			b := findEcVolumeShards(n, verifEcVid)
			for s := 0; s < erasure_coding.TotalShardsCount; s++ {
				if b.HasShardId(erasure_coding.ShardId(s)) {
					perShard[s]++
					perRack[n.rack]++
				}
			}
		}
		return
	}
	_, rackBefore := copies()
	racks := collectRacks(nodes)
	err := balanceEcVolumes(nil, "c", nodes, racks, false)
	rt.Assert(err == nil, "planning-succeeds")
	err = balanceEcRacks(nil, racks, false)
	rt.Assert(err == nil, "planning-succeeds")
	rt.Cover("planned")
	shardAfter, rackAfter := copies()
	for s := 0; s < erasure_coding.TotalShardsCount; s++ {
		rt.Assert(shardAfter[s] >= 1, "no-shard-is-lost-by-the-plan")
		if !withDup {
			rt.Assert(shardAfter[s] == 1, "no-shard-is-duplicated-by-the-plan")
		}
	}
	for _, n := range nodes {
		rt.Assert(n.freeEcSlot >= 0, "no-server-is-overfilled")
	}
	avg := (erasure_coding.TotalShardsCount + len(racks) - 1) / len(racks)
	for r, c := range rackAfter {
		lim := rackBefore[r]
		if lim < avg {
			lim = avg
		}
		rt.Assert(c <= lim, "no-rack-grows-beyond-the-even-spread-target")
	}
}
