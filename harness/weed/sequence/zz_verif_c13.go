package sequence

import (
	"context"
	"os"

	"go.etcd.io/etcd/client"

	rt "github.com/chrislusf/seaweedfs/weed/zzverifrt"
)

// In-memory stand-in for the etcd keys API: one key, linearizable Get / Create / compare-and-set.
type verifKeys struct {
	exists bool
	value  string
}

func (k *verifKeys) Get(ctx context.Context, key string, opts *client.GetOptions) (*client.Response, error) {
	if !k.exists {
		return nil, client.Error{Code: client.ErrorCodeKeyNotFound}
	}
	return &client.Response{Node: &client.Node{Key: key, Value: k.value}}, nil
}
func (k *verifKeys) Set(ctx context.Context, key, value string, opts *client.SetOptions) (*client.Response, error) {
	if opts != nil && opts.PrevValue != "" {
		if !k.exists || k.value != opts.PrevValue {
			return nil, client.Error{Code: client.ErrorCodeTestFailed}
		}
	}
	k.exists, k.value = true, value
	return &client.Response{Node: &client.Node{Key: key, Value: value}}, nil
}
func (k *verifKeys) Create(ctx context.Context, key, value string) (*client.Response, error) {
	if k.exists {
		return nil, client.Error{Code: client.ErrorCodeNodeExist}
	}
	k.exists, k.value = true, value
	return &client.Response{Node: &client.Node{Key: key, Value: value}}, nil
}
func (k *verifKeys) Delete(ctx context.Context, key string, opts *client.DeleteOptions) (*client.Response, error) {
	return nil, nil
}
func (k *verifKeys) CreateInOrder(ctx context.Context, dir, value string, opts *client.CreateInOrderOptions) (*client.Response, error) {
	return nil, nil
}
func (k *verifKeys) Update(ctx context.Context, key, value string) (*client.Response, error) {
	return nil, nil
}
func (k *verifKeys) Watcher(key string, opts *client.WatcherOptions) client.Watcher { return nil }

// the local sequence file is outside the claim
//verif:redirect github.com/chrislusf/seaweedfs/weed/sequence.writeSequenceFile verifWriteSequenceFile
func verifWriteSequenceFile(file *os.File, sequence, step uint64) error { return nil }

type verifRange struct{ start, count uint64 }

func verifDisjoint(a, b verifRange) bool {
	return rt.Or(a.start+a.count <= b.start, b.start+b.count <= a.start)
}

// C13 (memory sequencer): handed-out key ranges never overlap and lie above every reported key in use.
func VerifC13_Memory() {
	m := NewMemorySequencer()
	var given []verifRange
	var seen []uint64
	k := rt.Param("ops", 4)
	for i := 0; i < k; i++ {
		if rt.Choice("op", 2) == 0 {
			count := rt.U64("count")
			rt.Assume(rt.And(count >= 1, count <= 1<<32))
			start := m.NextFileId(count)
			r := verifRange{start, count}
			rt.Cover("assigned")
			for _, g := range given {
				rt.Assert(verifDisjoint(g, r), "ranges-disjoint")
			}
			for _, s := range seen {
				rt.Assert(start > s, "range-above-reported-keys")
			}
			given = append(given, r)
		} else {
			s := rt.U64("seen")
			rt.Assume(s < 1<<62)
			m.SetMax(s)
			seen = append(seen, s)
		}
	}
}

// C13 (etcd sequencer): two masters (old and new leader) sharing one etcd, any interleaving of their
// atomic operations.
func VerifC13_Etcd() {
	keys := &verifKeys{}
	initial := rt.U64("initial")
	rt.Assume(rt.And(initial >= 1, initial < 1<<40))
	var seqs [2]*EtcdSequencer
	dir := rt.TempDir()
	for i := range seqs {
		first, err := setMaxSequenceToEtcd(keys, initial)
		rt.Assert(err == nil, "init-ok")
		f, ferr := os.OpenFile(dir+"/seq"+string(rune('0'+i)), os.O_RDWR|os.O_CREATE, 0644)
		if ferr != nil {
			panic(ferr)
		}
		seqs[i] = &EtcdSequencer{keysAPI: keys, currentSeqId: first, maxSeqId: first, seqFile: f}
	}
	var given []verifRange
	var seenBy [2][]uint64
	k := rt.Param("ops", 3)
	for i := 0; i < k; i++ {
		who := rt.Choice("who", rt.Param("masters", 2))
		if rt.Choice("op", 2) == 0 {
			count := rt.U64("count")
			rt.Assume(rt.And(count >= 1, count <= 1<<20))
			start := seqs[who].NextFileId(count)
			r := verifRange{start, count}
			rt.Cover("assigned")
			for _, g := range given {
				rt.Assert(verifDisjoint(g, r), "ranges-disjoint")
			}
			for _, s := range seenBy[who] {
				rt.Assert(start > s, "range-above-reported-keys")
			}
			given = append(given, r)
		} else {
			s := rt.U64("seen")
			rt.Assume(s < 1<<41)
			seqs[who].SetMax(s)
			seenBy[who] = append(seenBy[who], s)
		}
	}
}
