package wdclient

import (
	rt "github.com/chrislusf/seaweedfs/weed/zzverifrt"
)

type verifLoc struct{ url, dc string }

// C35: after any sequence of add/remove notifications a lookup returns exactly the locations currently
// added (each once, same-data-center first) or not-found; a location list handed out before an update
// is not modified by the update (sequential witness of the torn-read hazard).
func VerifC35_LocationCache() {
	own := rt.Str("owndc", rt.Len("owndclen", 0, 1))
	vm := newVidMap(own)
	ref := map[uint32][]verifLoc{}
	k := rt.Param("ops", 3)
	for i := 0; i < k; i++ {
		vid := uint32(rt.Choice("vid", 2) + 1)
		loc := Location{Url: rt.Str("url", 1), DataCenter: rt.Str("dc", rt.Len("dclen", 0, 1))}
		held, _ := vm.GetLocations(vid)
		snapshot := append([]Location{}, held...)
		if rt.Choice("op", 2) == 0 {
			vm.addLocation(vid, loc)
			dup := false
			for _, r := range ref[vid] {
				if r.url == loc.Url {
					dup = true
				}
			}
			if !dup {
				ref[vid] = append(ref[vid], verifLoc{loc.Url, loc.DataCenter})
			}
		} else {
			vm.deleteLocation(vid, loc)
			var kept []verifLoc
			for _, r := range ref[vid] {
				if r.url != loc.Url {
					kept = append(kept, r)
				}
			}
			ref[vid] = kept
		}
		for j := range held {
			rt.Assert(held[j] == snapshot[j], "handed-out-list-not-mutated-by-update")
		}
		for v := uint32(1); v <= 2; v++ {
			got, found := vm.GetLocations(v)
			want := ref[v]
			if len(want) == 0 {
				rt.Assert(!found || len(got) == 0, "no-locations-listed-when-none-added")
				rt.Assert(!found, "not-found-when-none-added")
				continue
			}
			rt.Cover("nonempty")
			rt.Assert(found, "found-when-added")
			rt.Assert(len(got) == len(want), "each-location-once")
			for _, w := range want {
				seen := 0
				for _, g := range got {
					if g.Url == w.url {
						seen++
						rt.Assert(g.DataCenter == w.dc, "location-datacenter")
					}
				}
				rt.Assert(seen == 1, "location-listed-exactly-once")
			}
			urls, err := vm.LookupVolumeServerUrl(string(rune('0' + v)))
			rt.Assert(err == nil, "lookup-ok")
			rt.Assert(len(urls) == len(want), "lookup-each-once")
			// same-data-center locations come first
			seenOther := false
			for _, u := range urls {
				same := false
				for _, w := range want {
					if w.url == u && own != "" && w.dc == own {
						same = true
					}
				}
				if same {
					rt.Assert(!seenOther, "same-datacenter-first")
				} else {
					seenOther = true
				}
			}
		}
	}
}
