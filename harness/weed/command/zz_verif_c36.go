package command

import (
	"github.com/chrislusf/seaweedfs/weed/pb/filer_pb"
	"github.com/chrislusf/seaweedfs/weed/replication/source"
	"github.com/chrislusf/seaweedfs/weed/util"
	rt "github.com/chrislusf/seaweedfs/weed/zzverifrt"
)

type verifCall struct {
	op, key, newParent string
}

type verifSink struct {
	found bool
	calls []verifCall
}

func (s *verifSink) GetName() string                                                { return "local" }
func (s *verifSink) Initialize(configuration util.Configuration, prefix string) error { return nil }
func (s *verifSink) DeleteEntry(key string, isDirectory, deleteIncludeChunks bool, signatures []int32) error {
	s.calls = append(s.calls, verifCall{"delete", key, ""})
	return nil
}
func (s *verifSink) CreateEntry(key string, entry *filer_pb.Entry, signatures []int32) error {
	s.calls = append(s.calls, verifCall{"create", key, ""})
	return nil
}
func (s *verifSink) UpdateEntry(key string, oldEntry *filer_pb.Entry, newParentPath string, newEntry *filer_pb.Entry, deleteIncludeChunks bool, signatures []int32) (bool, error) {
	s.calls = append(s.calls, verifCall{"update", key, newParentPath})
	return s.found, nil
}
func (s *verifSink) GetSinkToDirectory() string            { return "/t" }
func (s *verifSink) SetSourceFiler(s2 *source.FilerSource) {}
func (s *verifSink) IsIncremental() bool                   { return false }

func verifDir(tag string, n int) string {
	if n == 0 {
		return "/"
	}
	s := rt.Str(tag, n)
	for i := 0; i < n; i++ {
		c := s[i]
		rt.Assume(rt.Or(rt.Or(c == '/', c == 'd'), rt.Or(c == 'e', c == '2')))
		if i > 0 {
			rt.Assume(!rt.And(c == '/', s[i-1] == '/'))
		}
	}
	rt.Assume(s[0] != '/')
	rt.Assume(s[n-1] != '/')
	return "/" + s
}

func verifUnder(key, dir string) bool {
	if len(key) == len(dir) {
		return key == dir
	}
	if len(key) > len(dir) {
		return rt.And(key[:len(dir)] == dir, key[len(dir)] == '/')
	}
	return false
}

// C36: filer.sync / filer.backup apply create, delete and the three kinds of rename at the mapped paths.
func VerifC36_SyncEvents() {
	src := "/d"
	s := &verifSink{found: true}
	fn := genProcessFunction(src, "/t", s, false)
	dir := verifDir("dir", rt.Len("dirlen", 0, rt.Param("dirlen", 3)))
	kind := rt.Choice("kind", 3)
	resp := &filer_pb.SubscribeMetadataResponse{Directory: dir, EventNotification: &filer_pb.EventNotification{}}
	oldE := &filer_pb.Entry{Name: "o", Attributes: &filer_pb.FuseAttributes{}}
	newE := &filer_pb.Entry{Name: "n", Attributes: &filer_pb.FuseAttributes{}}
	newDir := dir
	switch kind {
	case 0:
		resp.EventNotification.NewEntry = newE
		resp.EventNotification.NewParentPath = dir
	case 1:
		resp.EventNotification.OldEntry = oldE
	case 2:
		newDir = verifDir("newdir", rt.Len("newdirlen", 0, rt.Param("dirlen", 3)))
		resp.EventNotification.OldEntry = oldE
		resp.EventNotification.NewEntry = newE
		resp.EventNotification.NewParentPath = newDir
	}
	err := fn(resp)
	rt.Cover("processed")
	rt.Assert(err == nil, "process-ok")
	oldKey := string(util.FullPath(dir).Child("o"))
	newKey := string(util.FullPath(newDir).Child("n"))
	oldIn, newIn := verifUnder(oldKey, src), verifUnder(newKey, src)
	switch kind {
	case 0:
		if newIn {
			rt.Assert(rt.And(len(s.calls) == 1, true), "create-inside-applied")
			if len(s.calls) == 1 {
				rt.Assert(rt.And(s.calls[0].op == "create", s.calls[0].key == "/t"+newKey[len(src):]), "create-mapped")
			}
		} else {
			rt.Assert(len(s.calls) == 0, "create-outside-ignored")
		}
	case 1:
		if oldIn {
			rt.Assert(len(s.calls) == 1, "delete-inside-applied")
			if len(s.calls) == 1 {
				rt.Assert(rt.And(s.calls[0].op == "delete", s.calls[0].key == "/t"+oldKey[len(src):]), "delete-mapped")
			}
		} else {
			rt.Assert(len(s.calls) == 0, "delete-outside-ignored")
		}
	case 2:
		switch {
		case oldIn && newIn:
			rt.Cover("move-within")
			rt.Assert(len(s.calls) == 1, "move-within-applied")
			if len(s.calls) == 1 {
				rt.Assert(rt.And(s.calls[0].op == "update", s.calls[0].key == "/t"+oldKey[len(src):]), "move-within-mapped-old")
				rt.Assert(s.calls[0].newParent == util.Join("/t", newDir[len(src):]), "move-within-mapped-new-parent")
			}
		case oldIn && !newIn:
			rt.Cover("move-out")
			rt.Assert(len(s.calls) == 1, "move-out-applied-as-delete")
			if len(s.calls) == 1 {
				rt.Assert(rt.And(s.calls[0].op == "delete", s.calls[0].key == "/t"+oldKey[len(src):]), "move-out-mapped")
			}
		case !oldIn && newIn:
			rt.Cover("move-in")
			rt.Assert(len(s.calls) == 1, "move-in-applied-as-create")
			if len(s.calls) == 1 {
				rt.Assert(rt.And(s.calls[0].op == "create", s.calls[0].key == "/t"+newKey[len(src):]), "move-in-mapped")
			}
		default:
			rt.Assert(len(s.calls) == 0, "move-outside-ignored")
		}
	}
}
