package filer

import (
	"github.com/chrislusf/seaweedfs/weed/pb/filer_pb"
	rt "github.com/chrislusf/seaweedfs/weed/zzverifrt"
)

var verifIds = []string{"a", "b", "c", "d"}

func verifIdCode(s string) int {
	for i, x := range verifIds {
		if x == s {
			return i
		}
	}
	if s == "n" {
		return 9
	}
	return -2
}

// verifOwner: which chunk (code) and which offset inside it provides byte p, or code -1 for a hole.
func verifOwner(vs []VisibleInterval, p int64) (code int, off int64) {
	code = -1
	for _, v := range vs {
		c := verifIdCode(v.fileId)
		o := v.chunkOffset + p - v.start
		if rt.And(v.start <= p, p < v.stop) {
			code, off = c, o
		}
	}
	return
}

const verifSpan = int64(1) << 40

// C17 (inductive step): merging one more chunk into any valid list of visible intervals keeps the list
// sorted and non-overlapping, gives the new chunk every byte of its range and leaves every other byte
// with its previous owner and in-chunk offset.
func VerifC17_MergeStep() {
	m := rt.Len("visibles", 0, rt.Param("visibles", 3))
	var vs []VisibleInterval
	prevStop := int64(0)
	for i := 0; i < m; i++ {
		start, stop := rt.I64("start"), rt.I64("stop")
		rt.Assume(rt.And(start >= prevStop, rt.And(start < stop, stop <= verifSpan)))
		co := rt.I64("chunkoffset")
		rt.Assume(rt.And(co >= 0, co <= verifSpan))
		vs = append(vs, VisibleInterval{start: start, stop: stop, fileId: verifIds[i], chunkOffset: co, modifiedTime: int64(i)})
		prevStop = stop
	}
	before := append([]VisibleInterval{}, vs...)
	chunk := &filer_pb.FileChunk{FileId: "n", Offset: rt.I64("offset"), Size: rt.U64("size"), Mtime: 100}
	rt.Assume(rt.And(chunk.Offset >= 0, chunk.Offset <= verifSpan))
	rt.Assume(rt.And(chunk.Size >= 1, chunk.Size <= uint64(verifSpan)))
	after := MergeIntoVisibles(vs, chunk)
	rt.Cover("merged")
	sorted := true
	for i := range after {
		sorted = rt.And(sorted, after[i].start < after[i].stop)
		if i > 0 {
			sorted = rt.And(sorted, after[i-1].stop <= after[i].start)
		}
	}
	rt.Assert(sorted, "visibles-sorted-and-disjoint")
	p := rt.I64("position")
	rt.Assume(rt.And(p >= 0, p <= 2*verifSpan))
	gotCode, gotOff := verifOwner(after, p)
	oldCode, oldOff := verifOwner(before, p)
	inNew := rt.And(chunk.Offset <= p, p < chunk.Offset+int64(chunk.Size))
	wantCode, wantOff := oldCode, oldOff
	if inNew {
		wantCode, wantOff = 9, p-chunk.Offset
	}
	rt.Assert(gotCode == wantCode, "byte-owner")
	rt.Assert(rt.Or(gotCode == -1, gotOff == wantOff), "byte-offset-in-chunk")
}

// C17 (end to end): the views computed for a read window give every byte to the newest chunk covering it.
func VerifC17_Views() {
	n := rt.Len("chunks", 1, rt.Param("chunks", 3))
	var chunks []*filer_pb.FileChunk
	for i := 0; i < n; i++ {
		c := &filer_pb.FileChunk{FileId: verifIds[i], Offset: int64(rt.U8("offset")), Size: uint64(rt.U8("size")), Mtime: int64(rt.U8("mtime"))}
		rt.Assume(rt.And(c.Offset < 8, rt.And(c.Size >= 1, c.Size <= 4)))
		for _, o := range chunks {
			rt.Assume(o.Mtime != c.Mtime) // ties are outside the claim
		}
		chunks = append(chunks, c)
	}
	ref := append([]*filer_pb.FileChunk{}, chunks...)
	off, size := int64(rt.U8("readoffset")), int64(rt.U8("readsize"))
	rt.Assume(rt.And(off < 12, rt.And(size >= 1, size <= 12)))
	views := ViewFromChunks(nil, chunks, off, size)
	rt.Cover("viewed")
	p := int64(rt.U8("position"))
	rt.Assume(rt.And(p >= off, p < off+size))
	// reference: newest chunk covering p
	wantCode, wantOff, bestM := -1, int64(0), int64(-1)
	for i, c := range ref {
		cov := rt.And(c.Offset <= p, p < c.Offset+int64(c.Size))
		if rt.And(cov, c.Mtime > bestM) {
			wantCode, wantOff, bestM = i, p-c.Offset, c.Mtime
		}
	}
	gotCode, gotOff, hits := -1, int64(0), 0
	ordered := true
	for i, v := range views {
		if i > 0 {
			ordered = rt.And(ordered, views[i-1].LogicOffset+int64(views[i-1].Size) <= v.LogicOffset)
		}
		ordered = rt.And(ordered, rt.And(v.LogicOffset >= off, v.LogicOffset+int64(v.Size) <= off+size))
		if rt.And(v.LogicOffset <= p, p < v.LogicOffset+int64(v.Size)) {
			gotCode, gotOff = verifIdCode(v.FileId), v.Offset+p-v.LogicOffset
			hits++
		}
	}
	rt.Assert(ordered, "views-ordered-inside-window")
	rt.Assert(hits <= 1, "views-disjoint")
	rt.Assert(gotCode == wantCode, "view-owner-is-newest-chunk")
	rt.Assert(rt.Or(gotCode == -1, gotOff == wantOff), "view-offset-in-chunk")
}
