package filer

import (
	"os"
	"time"

	"github.com/chrislusf/seaweedfs/weed/pb/filer_pb"
	"github.com/chrislusf/seaweedfs/weed/util"
	rt "github.com/chrislusf/seaweedfs/weed/zzverifrt"
)

func verifC24Len(vary bool, tag string, lo, hi int) int {
	if vary {
		return rt.Len(tag, lo, hi)
	}
	return 1
}

// verifC24Attr: arbitrary attribute values; string lengths vary (0..n) when varyLens is set, else are 1.
func verifC24Attr(v bool) Attr {
	a := Attr{
		Mtime:         time.Unix(int64(rt.U32("mtime")), 0),
		Crtime:        time.Unix(int64(rt.U32("crtime")), 0),
		Mode:          os.FileMode(rt.U32("mode")),
		Uid:           rt.U32("uid"),
		Gid:           rt.U32("gid"),
		Mime:          rt.Str("mime", verifC24Len(v, "mimelen", 0, 2)),
		Replication:   rt.Str("replication", 3),
		Collection:    rt.Str("collection", verifC24Len(v, "collen", 0, 2)),
		TtlSec:        rt.I32("ttl"),
		DiskType:      rt.Str("disk", verifC24Len(v, "disklen", 0, 3)),
		UserName:      rt.Str("user", 1),
		SymlinkTarget: rt.Str("symlink", verifC24Len(v, "symlen", 0, 2)),
		Md5:           rt.Bytes("md5", verifC24Len(v, "md5len", 0, 2)),
		FileSize:      rt.U64("filesize"),
	}
	for i, n := 0, verifC24Len(v, "groups", 0, 2); i < n; i++ {
		a.GroupNames = append(a.GroupNames, rt.Str("group", 1))
	}
	return a
}

func verifSameAttr(a, b Attr) bool {
	ok := a.Mtime.Unix() == b.Mtime.Unix() && a.Crtime.Unix() == b.Crtime.Unix() && a.Mode == b.Mode && a.Uid == b.Uid && a.Gid == b.Gid
	ok = ok && a.Mime == b.Mime && a.Replication == b.Replication && a.Collection == b.Collection && a.TtlSec == b.TtlSec
	ok = ok && a.DiskType == b.DiskType && a.UserName == b.UserName && a.SymlinkTarget == b.SymlinkTarget && a.FileSize == b.FileSize
	ok = ok && rt.BytesEq(a.Md5, b.Md5) && len(a.GroupNames) == len(b.GroupNames)
	if !ok {
		return false
	}
	for i := range a.GroupNames {
		if a.GroupNames[i] != b.GroupNames[i] {
			return false
		}
	}
	return true
}

// C24 (entry codec): an entry with arbitrary attributes, chunks (file id, source file id, cipher key,
// compressed flag), extended attributes, hard link fields and inline content that is encoded and
// decoded the way the stores do it comes back equal. Under the engine the protobuf wire format is a
// table of message copies; at native replay it is the real codec.
func VerifC24_EntryRoundTrip() {
	verifProtoTable = nil
	e := &Entry{FullPath: "/d/f", Attr: verifC24Attr(false)}
	nchunks := rt.Len("chunks", 0, rt.Param("chunks", 2))
	for i := 0; i < nchunks; i++ {
		c := &filer_pb.FileChunk{
			FileId: "3,01637037d6", Offset: rt.I64("offset"), Size: rt.U64("size"), Mtime: rt.I64("cmtime"),
			ETag: rt.Str("etag", 2), CipherKey: rt.Bytes("cipher", rt.Len("cipherlen", 0, 2)), IsCompressed: rt.Bool("compressed"),
			IsChunkManifest: rt.Bool("manifest"),
		}
		if rt.Bool("hassource") {
			c.SourceFileId = "4,02aabbccdd"
		}
		e.Chunks = append(e.Chunks, c)
	}
	if rt.Bool("extended") {
		e.Extended = map[string][]byte{"k": rt.Bytes("xattr", 2)}
	}
	if rt.Bool("hardlink") {
		e.HardLinkId = HardLinkId(rt.Bytes("hlid", 3))
		e.HardLinkCounter = rt.I32("hlcounter")
	}
	e.Content = rt.Bytes("content", rt.Len("contentlen", 0, 3))

	// what the stores do on insert ...
	filer_pb.BeforeEntrySerialization(e.Chunks)
	blob, err := e.EncodeAttributesAndChunks()
	rt.Assert(err == nil, "encode-succeeds")
	if len(e.Chunks) > 50 {
		blob = util.MaybeGzipData(blob)
	}
	// ... and on lookup / listing
	got := &Entry{FullPath: "/d/f"}
	err = got.DecodeAttributesAndChunks(util.MaybeDecompressData(blob))
	rt.Assert(err == nil, "decode-succeeds")
	filer_pb.AfterEntryDeserialization(got.Chunks)
	rt.Cover("decoded")

	rt.Assert(verifSameAttr(got.Attr, e.Attr), "attributes-read-back-equal")
	rt.Assert(len(got.Chunks) == nchunks, "chunk-count-read-back-equal")
	for i := 0; i < nchunks && i < len(got.Chunks); i++ {
		w, g := e.Chunks[i], got.Chunks[i]
		rt.Assert(g.GetFileIdString() == "3,01637037d6", "chunk-file-id-read-back-canonical")
		same := g.Offset == w.Offset && g.Size == w.Size && g.Mtime == w.Mtime && g.ETag == w.ETag && g.IsCompressed == w.IsCompressed &&
			g.IsChunkManifest == w.IsChunkManifest && rt.BytesEq(g.CipherKey, w.CipherKey)
		rt.Assert(same, "chunk-fields-read-back-equal")
		if w.SourceFid != nil || w.SourceFileId != "" {
			rt.Assert(g.SourceFileId == "4,02aabbccdd", "chunk-source-file-id-read-back-canonical")
		} else {
			rt.Assert(g.SourceFileId == "" && g.SourceFid == nil, "chunk-without-source-stays-without")
		}
	}
	rt.Assert(rt.BytesEq(got.HardLinkId, e.HardLinkId) && got.HardLinkCounter == e.HardLinkCounter, "hard-link-fields-read-back-equal")
	rt.Assert(rt.BytesEq(got.Content, e.Content), "inline-content-read-back-equal")
	if e.Extended != nil {
		rt.Assert(len(got.Extended) == 1 && rt.BytesEq(got.Extended["k"], e.Extended["k"]), "extended-attributes-read-back-equal")
	} else {
		rt.Assert(len(got.Extended) == 0, "extended-attributes-read-back-equal")
	}
}

// C24 (attribute mapping alone, no codec): PbToEntryAttribute inverts EntryAttributeToPb.
func VerifC24_AttrMapping() {
	e := &Entry{FullPath: "/d/f", Attr: verifC24Attr(true)}
	back := PbToEntryAttribute(EntryAttributeToPb(e))
	rt.Cover("mapped")
	rt.Assert(verifSameAttr(back, e.Attr), "attribute-mapping-round-trips")
	rt.Assert(back.IsDirectory() == e.IsDirectory(), "directory-flag-round-trips")
}

// C24 (decompression guard): a stored blob that does not start with the gzip magic is returned as is.
func VerifC24_MaybeDecompress() {
	b := rt.Bytes("blob", rt.Len("len", 0, 4))
	rt.Assume(!(len(b) >= 2 && b[0] == 31 && b[1] == 139))
	out := util.MaybeDecompressData(b)
	rt.Cover("passed")
	rt.Assert(rt.BytesEq(out, b), "non-gzip-blob-is-returned-unchanged")
}
