package filer

import (
	"github.com/chrislusf/seaweedfs/weed/pb/filer_pb"
	rt "github.com/chrislusf/seaweedfs/weed/zzverifrt"
)

var verifPrefixes = []string{"/", "/a", "/a/", "/a/b", "/ab"}

func verifRulePrefixes() []string {
	return verifPrefixes[:rt.Param("rules", 5)]
}

func verifOptStr(tag string) string {
	if rt.Choice(tag+"-set", 2) == 0 {
		return ""
	}
	return rt.Str(tag, 1)
}

// C23: the storage rule for a path is the field-wise merge of all rules whose prefix is a prefix of the
// path, shorter prefixes first (a longer rule overrides only the fields it sets); deleting a rule gives
// the resolution without it.
func VerifC23_MatchStorageRule() {
	fc := NewFilerConf()
	var rules []*filer_pb.FilerConf_PathConf
	for _, p := range verifRulePrefixes() {
		if rt.Choice("has-rule", 2) == 1 {
			r := &filer_pb.FilerConf_PathConf{LocationPrefix: p, Collection: verifOptStr("collection"),
				Fsync: rt.Bool("fsync"), VolumeGrowthCount: uint32(rt.U8("growth")), ReadOnly: rt.Bool("readonly")}
			if rt.Param("replication", 0) == 1 {
				r.Replication = verifOptStr("replication")
			}
			if rt.Param("fields", 0) == 1 {
				// which of the remaining string fields this rule sets
				switch rt.Choice("fields", 5) {
				case 1:
					r.Ttl = rt.Str("ttl", 1)
				case 2:
					r.DiskType = rt.Str("disk", 1)
				case 3:
					r.Replication = rt.Str("replication", 1)
				case 4:
					r.Ttl, r.DiskType, r.Replication = rt.Str("ttl", 1), rt.Str("disk", 1), rt.Str("replication", 1)
				}
			}
			rt.Assert(fc.AddLocationConf(r) == nil, "add-ok")
			rules = append(rules, r)
		}
	}
	if rt.Choice("delete-one", 2) == 1 && len(rules) > 0 {
		k := rt.Choice("which", len(rules))
		fc.DeleteLocationConf(rules[k].LocationPrefix)
		rules = append(append([]*filer_pb.FilerConf_PathConf{}, rules[:k]...), rules[k+1:]...)
		rt.Cover("deleted")
	}
	n := rt.Len("pathlen", 1, rt.Param("pathlen", 4))
	path := rt.Str("path", n)
	for i := 0; i < n; i++ {
		rt.Assume(rt.Or(path[i] == '/', rt.Or(path[i] == 'a', path[i] == 'b')))
	}
	rt.Assume(path[0] == '/')
	got := fc.MatchStorageRule(path)
	rt.Cover("matched")
	// reference: rules are listed in increasing prefix length already
	want := &filer_pb.FilerConf_PathConf{}
	for _, r := range rules {
		p := r.LocationPrefix
		if len(p) <= n && path[:len(p)] == p {
			if r.Collection != "" {
				want.Collection = r.Collection
			}
			if r.Replication != "" {
				want.Replication = r.Replication
			}
			if r.Ttl != "" {
				want.Ttl = r.Ttl
			}
			if r.DiskType != "" {
				want.DiskType = r.DiskType
			}
			want.Fsync = want.Fsync || r.Fsync
			if r.VolumeGrowthCount > 0 {
				want.VolumeGrowthCount = r.VolumeGrowthCount
			}
			if r.ReadOnly {
				want.ReadOnly = true
			}
		}
	}
	rt.Assert(got.Collection == want.Collection, "collection-from-longest-matching-rule-that-sets-it")
	rt.Assert(got.Replication == want.Replication, "replication-from-longest-matching-rule-that-sets-it")
	rt.Assert(got.Ttl == want.Ttl, "ttl-from-longest-matching-rule-that-sets-it")
	rt.Assert(got.DiskType == want.DiskType, "disk-type-from-longest-matching-rule-that-sets-it")
	rt.Assert(got.Fsync == want.Fsync, "fsync")
	rt.Assert(got.VolumeGrowthCount == want.VolumeGrowthCount, "growth-count")
	rt.Assert(got.ReadOnly == want.ReadOnly, "read-only")
}

// ptrie deduplicates values by a key obtained from protobuf serialisation (not modelled): the location
// prefix identifies a rule just as well.
//verif:redirect (*github.com/chrislusf/seaweedfs/weed/pb/filer_pb.FilerConf_PathConf).Key verifPathConfKey
func verifPathConfKey(fp *filer_pb.FilerConf_PathConf) interface{} { return "rule:" + fp.LocationPrefix }

// ptrie remembers the value type through reflection for its (unused here) binary encoding.
//verif:redirect (*github.com/viant/ptrie.values).useType verifPtrieUseType
func verifPtrieUseType(v interface{}, t interface{}) {}
