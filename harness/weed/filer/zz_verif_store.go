package filer

import (
	"context"
	"sort"
	"strings"

	"github.com/chrislusf/seaweedfs/weed/pb/filer_pb"
	"github.com/chrislusf/seaweedfs/weed/util"
)

// verifMemStore is a reference FilerStore: a map of entries keyed by full path plus a key-value map.
// It follows the FilerStore contract as the embedded stores implement it: listings are in name
// order, start after (or at) startFileName, honour limit, and report the last name delivered.
// noPrefix makes it a store "without native prefix listing" (the wrapper's generic filter runs).
type verifMemStore struct {
	entries  map[string]*Entry
	kv       map[string][]byte
	noPrefix bool
	ops      []string // mutation log: "insert /a", "update /a", "delete /a", "deletechildren /a"
}

func verifNewMemStore() *verifMemStore {
	return &verifMemStore{entries: map[string]*Entry{}, kv: map[string][]byte{}}
}

func verifCloneEntry(e *Entry) *Entry {
	c := *e
	c.Chunks = append([]*filer_pb.FileChunk(nil), e.Chunks...)
	c.HardLinkId = append(HardLinkId(nil), e.HardLinkId...)
	c.Content = append([]byte(nil), e.Content...)
	return &c
}

func (s *verifMemStore) GetName() string { return "verifmem" }
func (s *verifMemStore) Initialize(configuration util.Configuration, prefix string) error {
	return nil
}
func (s *verifMemStore) InsertEntry(ctx context.Context, e *Entry) error {
	s.ops = append(s.ops, "insert "+string(e.FullPath))
	if len(s.entries) >= VhRunaway {
		panic("verif: runaway insertion of entries")
	}
	s.entries[string(e.FullPath)] = verifCloneEntry(e)
	return nil
}
func (s *verifMemStore) UpdateEntry(ctx context.Context, e *Entry) error {
	s.ops = append(s.ops, "update "+string(e.FullPath))
	s.entries[string(e.FullPath)] = verifCloneEntry(e)
	return nil
}
func (s *verifMemStore) FindEntry(ctx context.Context, p util.FullPath) (*Entry, error) {
	e, ok := s.entries[string(p)]
	if !ok {
		return nil, filer_pb.ErrNotFound
	}
	return verifCloneEntry(e), nil
}
func (s *verifMemStore) DeleteEntry(ctx context.Context, p util.FullPath) error {
	s.ops = append(s.ops, "delete "+string(p))
	delete(s.entries, string(p))
	return nil
}
func (s *verifMemStore) DeleteFolderChildren(ctx context.Context, p util.FullPath) error {
	s.ops = append(s.ops, "deletechildren "+string(p))
	// like the embedded stores: the direct children only
	for _, k := range s.sortedKeys() {
		if d, _ := util.FullPath(k).DirAndName(); d == string(p) {
			delete(s.entries, k)
		}
	}
	return nil
}
func (s *verifMemStore) sortedKeys() []string {
	keys := make([]string, 0, len(s.entries))
	for k := range s.entries {
		keys = append(keys, k)
	}
	sort.Strings(keys)
	return keys
}
func (s *verifMemStore) children(dir util.FullPath) []*Entry {
	var out []*Entry
	for _, k := range s.sortedKeys() {
		d, _ := util.FullPath(k).DirAndName()
		if d == string(dir) {
			out = append(out, s.entries[k])
		}
	}
	return out
}
func (s *verifMemStore) ListDirectoryEntries(ctx context.Context, dirPath util.FullPath, startFileName string, includeStartFile bool, limit int64, eachEntryFunc ListEachEntryFunc) (string, error) {
	return s.list(dirPath, startFileName, includeStartFile, limit, "", eachEntryFunc)
}
func (s *verifMemStore) ListDirectoryPrefixedEntries(ctx context.Context, dirPath util.FullPath, startFileName string, includeStartFile bool, limit int64, prefix string, eachEntryFunc ListEachEntryFunc) (string, error) {
	if s.noPrefix {
		return "", ErrUnsupportedListDirectoryPrefixed
	}
	return s.list(dirPath, startFileName, includeStartFile, limit, prefix, eachEntryFunc)
}
func (s *verifMemStore) list(dirPath util.FullPath, startFileName string, includeStartFile bool, limit int64, prefix string, eachEntryFunc ListEachEntryFunc) (lastFileName string, err error) {
	for _, e := range s.children(dirPath) {
		name := e.Name()
		if name < startFileName || (name == startFileName && !includeStartFile) {
			continue
		}
		if !strings.HasPrefix(name, prefix) {
			continue
		}
		limit--
		if limit < 0 {
			break
		}
		lastFileName = name
		if !eachEntryFunc(verifCloneEntry(e)) {
			break
		}
	}
	return lastFileName, nil
}
func (s *verifMemStore) BeginTransaction(ctx context.Context) (context.Context, error) {
	return ctx, nil
}
func (s *verifMemStore) CommitTransaction(ctx context.Context) error   { return nil }
func (s *verifMemStore) RollbackTransaction(ctx context.Context) error { return nil }
func (s *verifMemStore) KvPut(ctx context.Context, key []byte, value []byte) error {
	s.kv[string(key)] = append([]byte(nil), value...)
	return nil
}
func (s *verifMemStore) KvGet(ctx context.Context, key []byte) ([]byte, error) {
	v, ok := s.kv[string(key)]
	if !ok {
		return nil, ErrKvNotFound
	}
	return v, nil
}
func (s *verifMemStore) KvDelete(ctx context.Context, key []byte) error {
	delete(s.kv, string(key))
	return nil
}
func (s *verifMemStore) Shutdown() {}
