package filer

import (
	"context"
	"sort"

	"github.com/chrislusf/seaweedfs/weed/pb/filer_pb"
	"github.com/chrislusf/seaweedfs/weed/util"
	"github.com/golang/protobuf/proto"
)

// Helpers for harnesses (here and in weed/server) that drive the real Filer over the reference store.

// VhMemStore is the exported face of the reference store.
type VhMemStore = verifMemStore

func VhNewMemStore() *VhMemStore { return verifNewMemStore() }

// VhRunaway bounds the number of entries: an operation that keeps inserting (a directory moved
// into itself) ends in this panic instead of running forever.
const VhRunaway = 16

// VhNewFiler builds a Filer around a store without master client, peers or log buffer.
func VhNewFiler(store FilerStore) *Filer {
	f := &Filer{
		Store:               NewFilerStoreWrapper(store),
		fileIdDeletionQueue: util.NewUnboundedQueue(),
		FilerConf:           NewFilerConf(),
		DirBucketsPath:      "/buckets",
	}
	f.buckets = &FilerBuckets{dirBucketsPath: "/buckets", buckets: map[BucketName]*BucketOption{}}
	verifDirectDeleted = nil
	verifProtoTable = nil
	return f
}

// The metadata event log is not part of these properties.
//
//verif:redirect (*github.com/chrislusf/seaweedfs/weed/filer.Filer).logMetaEvent verifLogMetaEvent
func verifLogMetaEvent(f *Filer, ctx context.Context, fullpath string, eventNotification *filer_pb.EventNotification) {
}

// Chunk deletion sink 1 (direct): file ids handed to the volume servers for deletion.
var verifDirectDeleted []string

//verif:redirect (*github.com/chrislusf/seaweedfs/weed/filer.Filer).doDeleteFileIds verifDoDeleteFileIds
func verifDoDeleteFileIds(f *Filer, fileIds []string) {
	verifDirectDeleted = append(verifDirectDeleted, fileIds...)
}

// VhDeletedFileIds returns every file id deleted directly or queued for deletion so far (sink 2 is
// the real deletion queue, drained here).
func VhDeletedFileIds(f *Filer) []string {
	out := append([]string(nil), verifDirectDeleted...)
	for i := 0; i < 2; i++ {
		f.fileIdDeletionQueue.Consume(func(ids []string) { out = append(out, ids...) })
	}
	sort.Strings(out)
	return out
}

// protobuf wire encoding is replaced (under the engine) by a table of message copies: the blob is
// the table index. The mapping between Entry and filer_pb.Entry is the real code.
var verifProtoTable []*filer_pb.Entry

//verif:redirect github.com/golang/protobuf/proto.Marshal verifProtoMarshal
func verifProtoMarshal(m proto.Message) ([]byte, error) {
	e, ok := m.(*filer_pb.Entry)
	if !ok {
		panic("verif: proto.Marshal model only covers filer_pb.Entry")
	}
	c := *e
	if e.Attributes != nil {
		a := *e.Attributes
		c.Attributes = &a
	}
	c.Chunks = append([]*filer_pb.FileChunk(nil), e.Chunks...)
	c.HardLinkId = append([]byte(nil), e.HardLinkId...)
	c.Content = append([]byte(nil), e.Content...)
	verifProtoTable = append(verifProtoTable, &c)
	return []byte{byte(len(verifProtoTable) - 1)}, nil
}

//verif:redirect github.com/golang/protobuf/proto.UnmarshalMerge verifProtoUnmarshalMerge
func verifProtoUnmarshalMerge(blob []byte, m proto.Message) error {
	e, ok := m.(*filer_pb.Entry)
	if !ok || len(blob) != 1 || int(blob[0]) >= len(verifProtoTable) {
		panic("verif: proto.UnmarshalMerge model only covers blobs made by the Marshal model")
	}
	src := verifProtoTable[blob[0]]
	e.Name, e.IsDirectory = src.Name, src.IsDirectory
	if src.Attributes != nil {
		a := *src.Attributes
		e.Attributes = &a
	}
	e.Chunks = append([]*filer_pb.FileChunk(nil), src.Chunks...)
	e.Extended = src.Extended
	e.HardLinkId = append([]byte(nil), src.HardLinkId...)
	e.HardLinkCounter = src.HardLinkCounter
	e.Content = append([]byte(nil), src.Content...)
	e.Remote = src.Remote
	return nil
}

// VhSnapshot describes the namespace held by the store: path -> "dir" or "file:<content>:<chunks>:<hardlink>".
func (s *verifMemStore) VhSnapshot() (paths []string, desc map[string]string) {
	desc = map[string]string{}
	for _, k := range s.sortedKeys() {
		e := s.entries[k]
		paths = append(paths, k)
		if e.IsDirectory() {
			desc[k] = "dir"
			continue
		}
		d := "file:" + string(e.Content) + ":"
		for _, c := range e.Chunks {
			d += c.GetFileIdString() + ","
		}
		desc[k] = d + ":" + string(e.HardLinkId)
	}
	return
}

func (s *verifMemStore) VhKvLen() int { return len(s.kv) }
