package filer

import (
	"context"
	"os"
	"path/filepath"
	"strings"
	"time"

	"github.com/chrislusf/seaweedfs/weed/util"
	rt "github.com/chrislusf/seaweedfs/weed/zzverifrt"
)

var verifC19Names = []string{"a", "ab", "abc", "b", "bc", "c"}

func verifC19Pick(tag string, opts []string) string { return opts[rt.Choice(tag, len(opts))] }

// C19: for every directory content over the name universe (each name absent, live or expired), every
// start name, inclusive flag, limit, prefix / name pattern and exclusion pattern, the filer returns
// exactly the first `limit` live matching children after the start, in name order, reports hasMore
// correctly, and the reported last name lets the next page continue without loss or repetition -
// over a store with native prefix listing and over one without.
func VerifC19_Listing() {
	n := rt.Param("names", 4)
	store := verifNewMemStore()
	store.noPrefix = rt.Bool("noprefix")
	f := &Filer{Store: NewFilerStoreWrapper(store)}
	ctx := context.Background()
	var live []string
	for i := 0; i < n; i++ {
		name := verifC19Names[i]
		e := &Entry{FullPath: util.NewFullPath("/d", name), Attr: Attr{Mode: 0644, Crtime: time.Unix(1000, 0), Mtime: time.Unix(1000, 0)}}
		switch rt.Choice("state", 3) {
		case 0:
			continue
		case 1:
			live = append(live, name)
		case 2:
			e.TtlSec = 1 // created in 1970: expired at any plausible "now"
		}
		store.InsertEntry(ctx, e)
	}
	// an unrelated sibling directory and a nested child must never show up
	store.InsertEntry(ctx, &Entry{FullPath: "/d/b/zz", Attr: Attr{Mode: 0644}})
	store.InsertEntry(ctx, &Entry{FullPath: "/da", Attr: Attr{Mode: os.ModeDir | 0755}})

	start := verifC19Pick("start", append([]string{"", "aa"}, verifC19Names[:n]...))
	inclusive := rt.Bool("inclusive")
	limit := int64(1 + rt.Choice("limit", rt.Param("maxlimit", 3)))
	prefix, pattern := "", ""
	if rt.Bool("usepattern") {
		pattern = verifC19Pick("pattern", []string{"a*", "*c", "?b*", "ab?", "ab", "[ab]c"})
	} else {
		prefix = verifC19Pick("prefix", []string{"", "a", "ab", "b"})
	}
	exclude := verifC19Pick("exclude", []string{"", "*c"})

	var want []string
	for _, name := range live {
		if name < start || (name == start && !inclusive) {
			continue
		}
		if !strings.HasPrefix(name, prefix) {
			continue
		}
		if pattern != "" {
			if m, _ := filepath.Match(pattern, name); !m {
				continue
			}
		}
		if exclude != "" {
			if m, _ := filepath.Match(exclude, name); m {
				continue
			}
		}
		want = append(want, name)
	}

	var got []string
	last, err := f.StreamListDirectoryEntries(ctx, "/d", start, inclusive, limit, prefix, pattern, exclude, func(entry *Entry) bool {
		got = append(got, entry.Name())
		return true
	})
	rt.Cover("listed")
	rt.Assert(err == nil, "listing-succeeds")
	wantPage := want
	if int64(len(wantPage)) > limit {
		wantPage = wantPage[:limit]
	}
	rt.Assert(strings.Join(got, ",") == strings.Join(wantPage, ","), "page-is-exactly-the-first-limit-matches-in-order")
	// continuing after `last` must neither skip nor repeat a match
	if len(got) > 0 {
		rt.Assert(last >= got[len(got)-1], "last-name-not-before-last-delivered")
		for _, name := range want[len(wantPage):] {
			rt.Assert(name > last, "continuing-after-last-name-skips-no-match")
		}
	}

	entries, hasMore, err2 := f.ListDirectoryEntries(ctx, "/d", start, inclusive, limit, prefix, pattern, exclude)
	rt.Assert(err2 == nil, "listing-succeeds")
	var got2 []string
	for _, e := range entries {
		got2 = append(got2, e.Name())
	}
	rt.Assert(strings.Join(got2, ",") == strings.Join(wantPage, ","), "page-is-exactly-the-first-limit-matches-in-order")
	rt.Assert(hasMore == (int64(len(want)) > limit), "has-more-iff-matches-remain")
}
