package leveldb

import (
	"bytes"
	"context"
	"sort"
	"strings"

	"github.com/chrislusf/seaweedfs/weed/filer"
	weed_util "github.com/chrislusf/seaweedfs/weed/util"
	rt "github.com/chrislusf/seaweedfs/weed/zzverifrt"
	"github.com/syndtr/goleveldb/leveldb"
	"github.com/syndtr/goleveldb/leveldb/iterator"
	"github.com/syndtr/goleveldb/leveldb/opt"
	leveldb_util "github.com/syndtr/goleveldb/leveldb/util"
)

// Under the engine the goleveldb handle is replaced by an ordered in-memory key/value list (the
// documented behaviour of DB.Put/Get/Delete/NewIterator over a key range); the store's own code -
// key layout, range start, prefix test, start/inclusive/limit handling - is the real code. At native
// replay a real goleveldb database in a temporary directory is used.
type verifKVPair struct {
	k, v []byte
}

// one ordered list per database handle
var verifKVs = map[*leveldb.DB][]verifKVPair{}

func verifKVFind(verifKV []verifKVPair, key []byte) int {
	return sort.Search(len(verifKV), func(i int) bool { return bytes.Compare(verifKV[i].k, key) >= 0 })
}

//verif:redirect (*github.com/syndtr/goleveldb/leveldb.DB).Put VerifDBPut
func VerifDBPut(db *leveldb.DB, key, value []byte, wo *opt.WriteOptions) error {
	verifKV := verifKVs[db]
	i := verifKVFind(verifKV, key)
	if i < len(verifKV) && bytes.Equal(verifKV[i].k, key) {
		verifKV[i].v = append([]byte(nil), value...)
		return nil
	}
	verifKV = append(verifKV, verifKVPair{})
	copy(verifKV[i+1:], verifKV[i:])
	verifKV[i] = verifKVPair{append([]byte(nil), key...), append([]byte(nil), value...)}
	verifKVs[db] = verifKV
	return nil
}

//verif:redirect (*github.com/syndtr/goleveldb/leveldb.DB).Get VerifDBGet
func VerifDBGet(db *leveldb.DB, key []byte, ro *opt.ReadOptions) ([]byte, error) {
	verifKV := verifKVs[db]
	i := verifKVFind(verifKV, key)
	if i < len(verifKV) && bytes.Equal(verifKV[i].k, key) {
		return append([]byte(nil), verifKV[i].v...), nil
	}
	return nil, leveldb.ErrNotFound
}

//verif:redirect (*github.com/syndtr/goleveldb/leveldb.DB).Delete VerifDBDelete
func VerifDBDelete(db *leveldb.DB, key []byte, wo *opt.WriteOptions) error {
	verifKV := verifKVs[db]
	i := verifKVFind(verifKV, key)
	if i < len(verifKV) && bytes.Equal(verifKV[i].k, key) {
		verifKVs[db] = append(verifKV[:i], verifKV[i+1:]...)
	}
	return nil
}

type verifIter struct {
	pairs []verifKVPair
	pos   int
}

func (it *verifIter) First() bool                       { it.pos = 0; return it.Valid() }
func (it *verifIter) Last() bool                        { it.pos = len(it.pairs) - 1; return it.Valid() }
func (it *verifIter) Next() bool                        { it.pos++; return it.Valid() }
func (it *verifIter) Prev() bool                        { it.pos--; return it.Valid() }
func (it *verifIter) Valid() bool                       { return it.pos >= 0 && it.pos < len(it.pairs) }
func (it *verifIter) Error() error                      { return nil }
func (it *verifIter) Key() []byte                       { return it.pairs[it.pos].k }
func (it *verifIter) Value() []byte                     { return it.pairs[it.pos].v }
func (it *verifIter) Release()                          {}
func (it *verifIter) SetReleaser(leveldb_util.Releaser) {}
func (it *verifIter) Seek(key []byte) bool {
	it.pos = sort.Search(len(it.pairs), func(i int) bool { return bytes.Compare(it.pairs[i].k, key) >= 0 })
	return it.Valid()
}

//verif:redirect (*github.com/syndtr/goleveldb/leveldb.DB).NewIterator VerifDBNewIterator
func VerifDBNewIterator(db *leveldb.DB, slice *leveldb_util.Range, ro *opt.ReadOptions) iterator.Iterator {
	it := &verifIter{pos: -1}
	for _, p := range verifKVs[db] {
		if slice != nil && slice.Start != nil && bytes.Compare(p.k, slice.Start) < 0 {
			continue
		}
		if slice != nil && slice.Limit != nil && bytes.Compare(p.k, slice.Limit) >= 0 {
			continue
		}
		it.pairs = append(it.pairs, p)
	}
	return it
}

// The entry codec (protobuf) is replaced by a one-byte stand-in: only names matter to a listing.
//
//verif:redirect (*github.com/chrislusf/seaweedfs/weed/filer.Entry).EncodeAttributesAndChunks VerifEntryEncode
func VerifEntryEncode(entry *filer.Entry) ([]byte, error) { return []byte{byte(entry.TtlSec)}, nil }

//verif:redirect (*github.com/chrislusf/seaweedfs/weed/filer.Entry).DecodeAttributesAndChunks VerifEntryDecode
func VerifEntryDecode(entry *filer.Entry, blob []byte) error {
	if len(blob) == 1 {
		entry.TtlSec = int32(blob[0])
	}
	return nil
}

var verifC19Names = []string{"a", "ab", "abc", "b", "bc", "c"}

func verifC19Pick(tag string, opts []string) string { return opts[rt.Choice(tag, len(opts))] }

// C19 (leveldb store): ListDirectoryPrefixedEntries returns exactly the children of the directory
// after (or at) the start name that carry the prefix, in name order, at most `limit`, and reports
// the last name delivered - for every directory content over the name universe, start, flag, limit
// and prefix.
func VerifC19_LevelDB3Listing() {
	n := rt.Param("names", 4)
	store := &LevelDB3Store{}
	verifKVs = map[*leveldb.DB][]verifKVPair{}
	if rt.Native() {
		if err := store.initialize(rt.TempDir()); err != nil {
			panic(err)
		}
		defer store.Shutdown()
	} else {
		store.dir = "/verifdb"
		store.dbs = map[string]*leveldb.DB{DEFAULT: &leveldb.DB{}}
	}
	ctx := context.Background()
	var present []string
	for i := 0; i < n; i++ {
		if rt.Bool("present") {
			present = append(present, verifC19Names[i])
			store.InsertEntry(ctx, &filer.Entry{FullPath: weed_util.NewFullPath("/buckets/bk/d", verifC19Names[i])})
		}
	}
	store.InsertEntry(ctx, &filer.Entry{FullPath: "/buckets/bk/d/b/zz"})
	store.InsertEntry(ctx, &filer.Entry{FullPath: "/buckets/bk/da"})
	store.InsertEntry(ctx, &filer.Entry{FullPath: "/c/a"})

	start := verifC19Pick("start", append([]string{"", "aa"}, verifC19Names[:n]...))
	inclusive := rt.Bool("inclusive")
	limit := int64(1 + rt.Choice("limit", rt.Param("maxlimit", 3)))
	prefix := verifC19Pick("prefix", []string{"", "a", "ab", "b"})

	var want []string
	for _, name := range present {
		if name < start || (name == start && !inclusive) || !strings.HasPrefix(name, prefix) {
			continue
		}
		if int64(len(want)) < limit {
			want = append(want, name)
		}
	}
	var got []string
	last, err := store.ListDirectoryPrefixedEntries(ctx, "/buckets/bk/d", start, inclusive, limit, prefix, func(entry *filer.Entry) bool {
		got = append(got, entry.Name())
		rt.Assert(string(entry.FullPath) == "/buckets/bk/d/"+entry.Name(), "listed-entry-carries-its-full-path")
		return true
	})
	rt.Cover("listed")
	rt.Assert(err == nil, "listing-succeeds")
	rt.Assert(strings.Join(got, ",") == strings.Join(want, ","), "page-is-exactly-the-first-limit-matches-in-order")
	if len(want) > 0 {
		rt.Assert(last == want[len(want)-1], "last-name-is-the-last-delivered")
	}
}

// Under the engine opening a database yields a fresh handle (the model keeps one ordered list per handle).
//
//verif:redirect github.com/syndtr/goleveldb/leveldb.OpenFile VerifDBOpenFile
func VerifDBOpenFile(path string, o *opt.Options) (*leveldb.DB, error) { return &leveldb.DB{}, nil }

//verif:redirect (*github.com/syndtr/goleveldb/leveldb.DB).Close VerifDBClose
func VerifDBClose(db *leveldb.DB) error { return nil }
