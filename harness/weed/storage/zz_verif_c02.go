package storage

import (
	"github.com/chrislusf/seaweedfs/weed/storage/backend"
	"github.com/chrislusf/seaweedfs/weed/storage/needle"
	"github.com/chrislusf/seaweedfs/weed/storage/super_block"
	. "github.com/chrislusf/seaweedfs/weed/storage/types"
	rt "github.com/chrislusf/seaweedfs/weed/zzverifrt"
)

type verifScanRec struct {
	id     NeedleId
	offset int64
	size   Size
	data   []byte
}

type verifScanner struct {
	body bool
	seen []verifScanRec
}

func (s *verifScanner) VisitSuperBlock(super_block.SuperBlock) error { return nil }
func (s *verifScanner) ReadNeedleBody() bool                          { return s.body }
func (s *verifScanner) VisitNeedle(n *needle.Needle, offset int64, needleHeader, needleBody []byte) error {
	s.seen = append(s.seen, verifScanRec{id: n.Id, offset: offset, size: n.Size, data: append([]byte{}, n.Data...)})
	return nil
}

func verifBlob(i string) *needle.Needle {
	n := &needle.Needle{Id: NeedleId(rt.U64("id" + i)), Cookie: Cookie(rt.U32("cookie" + i)), Flags: rt.U8("flags" + i)}
	n.Data = rt.Bytes("data"+i, rt.Len("dlen"+i, 0, rt.Param("datamax", 2)))
	n.Name = rt.Bytes("name"+i, rt.Len("nlen"+i, 0, rt.Param("metamax", 1)))
	n.Mime = rt.Bytes("mime"+i, rt.Len("mlen"+i, 0, rt.Param("metamax", 1)))
	n.LastModified = rt.U64("lastmod" + i)
	rt.Assume(n.LastModified < 1<<40)
	n.Ttl = &needle.TTL{Count: rt.U8("ttlcount" + i), Unit: rt.U8("ttlunit" + i)}
	n.AppendAtNs = rt.U64("appendat" + i)
	n.Checksum = needle.NewCRC(n.Data)
	return n
}

// C02 (c): scanning a volume file record by record visits exactly the written records, in order.
func VerifC02_Scan() {
	version := needle.Version2
	if rt.Choice("version", 2) == 1 {
		version = needle.Version3
	}
	file := &backend.VerifMemFile{FileName: "v.dat", Data: make([]byte, 8)}
	k := rt.Len("records", 1, rt.Param("records", 2))
	var want []verifScanRec
	for i := 0; i < k; i++ {
		n := verifBlob(string(rune('0' + i)))
		off, _, _, err := n.Append(file, version)
		rt.Assert(err == nil, "append-ok")
		want = append(want, verifScanRec{id: n.Id, offset: int64(off), size: n.Size, data: n.Data})
	}
	sc := &verifScanner{body: rt.Choice("readbody", 2) == 1}
	err := ScanVolumeFileFrom(version, file, 8, sc)
	rt.Cover("scanned")
	rt.Assert(err == nil, "scan-ok")
	rt.Assert(len(sc.seen) == k, "scan-visits-exactly-the-records")
	for i := 0; i < k && i < len(sc.seen); i++ {
		rt.Assert(rt.And(sc.seen[i].id == want[i].id, rt.And(sc.seen[i].offset == want[i].offset, sc.seen[i].size == want[i].size)), "scan-record-identity")
		if sc.body {
			rt.Assert(rt.BytesEq(sc.seen[i].data, want[i].data), "scan-record-data")
		}
	}
}
