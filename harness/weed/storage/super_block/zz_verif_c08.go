package super_block

import (
	"errors"

	"github.com/golang/protobuf/proto"

	"github.com/chrislusf/seaweedfs/weed/pb/master_pb"
	"github.com/chrislusf/seaweedfs/weed/storage/backend"
	"github.com/chrislusf/seaweedfs/weed/storage/needle"
	rt "github.com/chrislusf/seaweedfs/weed/zzverifrt"
)

// C08: replica placement byte <-> struct <-> string.
func VerifC08_ReplicaPlacementByte() {
	b := rt.U8("b")
	rp, err := NewReplicaPlacementFromByte(b)
	if err != nil {
		rt.Cover("rejected")
		return
	}
	rt.Cover("accepted")
	// an accepted byte denotes three digits 0..2 and encodes back to itself
	rt.Assert(rp.Byte() == b, "rp-byte-roundtrip")
	rt.Assert(rt.And(rt.And(rp.DiffDataCenterCount <= 2, rp.DiffRackCount <= 2), rp.SameRackCount <= 2), "rp-digits-in-range")
	rt.Assert(int(b) == rp.DiffDataCenterCount*100+rp.DiffRackCount*10+rp.SameRackCount, "rp-byte-meaning")
	rp2, err2 := NewReplicaPlacementFromString(rp.String())
	rt.Assert(err2 == nil, "rp-string-reparse")
	rt.Assert(rt.And(rt.And(rp2.DiffDataCenterCount == rp.DiffDataCenterCount, rp2.DiffRackCount == rp.DiffRackCount), rp2.SameRackCount == rp.SameRackCount), "rp-string-roundtrip")
}

func VerifC08_ReplicaPlacementStruct() {
	x, y, z := rt.Int("x"), rt.Int("y"), rt.Int("z")
	rt.Assume(rt.And(x >= 0, x <= 2))
	rt.Assume(rt.And(y >= 0, y <= 2))
	rt.Assume(rt.And(z >= 0, z <= 2))
	rp := &ReplicaPlacement{SameRackCount: z, DiffRackCount: y, DiffDataCenterCount: x}
	rp2, err := NewReplicaPlacementFromByte(rp.Byte())
	rt.Cover("decoded")
	rt.Assert(err == nil, "rp-struct-accepted")
	rt.Assert(rt.And(rt.And(rp2.DiffDataCenterCount == x, rp2.DiffRackCount == y), rp2.SameRackCount == z), "rp-struct-roundtrip")
}

// A replication string of exactly three bytes is accepted only if it denotes digits 0..2.
func VerifC08_ReplicaPlacementString() {
	s := rt.Str("s", 3)
	// ASCII only: non-ASCII bytes go through utf8 decoding inside `range`, outside this claim
	rt.Assume(rt.And(rt.And(s[0] < 0x80, s[1] < 0x80), s[2] < 0x80))
	rp, err := NewReplicaPlacementFromString(s)
	valid := rt.And(rt.And(rt.And(s[0] >= '0', s[0] <= '2'), rt.And(s[1] >= '0', s[1] <= '2')), rt.And(s[2] >= '0', s[2] <= '2'))
	if err != nil {
		rt.Cover("rejected")
		rt.Assert(!valid, "rp-valid-string-rejected")
		return
	}
	rt.Cover("accepted")
	rt.Assert(valid, "rp-invalid-string-accepted")
	rt.Assert(rp.String() == s, "rp-string-exact")
}

// Stub codec for the super block extra (protobuf itself is outside the claim). Contract kept from the
// real codec: decode(encode(m)) == m for a non-empty message, and bytes that were not produced by the
// encoder (in particular all zeros) are rejected. Natively the real protobuf codec runs.

//verif:redirect github.com/golang/protobuf/proto.Marshal verifProtoMarshal
func verifProtoMarshal(m proto.Message) ([]byte, error) {
	x := m.(*master_pb.SuperBlockExtra)
	b := []byte{0xA5}
	if x.ErasureCoding != nil {
		b = append(b, byte(x.ErasureCoding.Data), byte(x.ErasureCoding.Parity))
	}
	return b, nil
}

//verif:redirect github.com/golang/protobuf/proto.Unmarshal verifProtoUnmarshal
func verifProtoUnmarshal(b []byte, m proto.Message) error {
	x := m.(*master_pb.SuperBlockExtra)
	if len(b) != 3 || b[0] != 0xA5 {
		return verifErrWire
	}
	x.ErasureCoding = &master_pb.SuperBlockExtra_ErasureCoding{Data: uint32(b[1]), Parity: uint32(b[2])}
	return nil
}

var verifErrWire = errors.New("cannot parse invalid wire-format data")

// C08: super block header round-trip, with and without extra metadata.
func VerifC08_SuperBlock() {
	ver := needle.Version(rt.U8("version"))
	rt.Assume(rt.Or(ver == needle.Version2, ver == needle.Version3))
	x, y, z := rt.Int("x"), rt.Int("y"), rt.Int("z")
	rt.Assume(rt.And(x >= 0, x <= 2))
	rt.Assume(rt.And(y >= 0, y <= 2))
	rt.Assume(rt.And(z >= 0, z <= 2))
	ttl := &needle.TTL{Count: rt.U8("ttlcount"), Unit: rt.U8("ttlunit")}
	rev := rt.U16("rev")
	sb := &SuperBlock{Version: ver, ReplicaPlacement: &ReplicaPlacement{SameRackCount: z, DiffRackCount: y, DiffDataCenterCount: x}, Ttl: ttl, CompactionRevision: rev}
	withExtra := rt.Choice("withextra", 2) == 1
	d, p := rt.U8("ecdata"), rt.U8("ecparity")
	rt.Assume(rt.And(rt.And(d >= 1, d < 128), rt.And(p >= 1, p < 128)))
	if withExtra {
		sb.Extra = &master_pb.SuperBlockExtra{ErasureCoding: &master_pb.SuperBlockExtra_ErasureCoding{Data: uint32(d), Parity: uint32(p)}}
	}
	file := &backend.VerifMemFile{FileName: "v.dat"}
	written := sb.Bytes()
	file.WriteAt(written, 0)
	// records follow the super block: reading it must not depend on what comes after
	file.WriteAt(rt.Bytes("tail", 2), int64(len(written)))
	got, err := ReadSuperBlock(file)
	rt.Cover("read")
	rt.Assert(err == nil, "sb-read-ok")
	rt.Assert(rt.And(got.Version == ver, got.CompactionRevision == rev), "sb-version-rev")
	rt.Assert(rt.And(rt.And(got.ReplicaPlacement.DiffDataCenterCount == x, got.ReplicaPlacement.DiffRackCount == y), got.ReplicaPlacement.SameRackCount == z), "sb-replica")
	rt.Assert(rt.And(got.Ttl.Count == ttl.Count, got.Ttl.Unit == ttl.Unit), "sb-ttl")
	rt.Assert(got.BlockSize() == len(written), "sb-blocksize")
	if withExtra {
		rt.Cover("extra")
		rt.Assert(got.Extra != nil, "sb-extra-present")
		rt.Assert(got.Extra.ErasureCoding != nil, "sb-extra-decoded")
		rt.Assert(rt.And(got.Extra.ErasureCoding.Data == uint32(d), got.Extra.ErasureCoding.Parity == uint32(p)), "sb-extra-roundtrip")
	} else {
		rt.Assert(got.ExtraSize == 0, "sb-no-extra")
	}
}
