package needle

import (
	rt "github.com/chrislusf/seaweedfs/weed/zzverifrt"
)

// C09 (d): the volume TTL chosen for a filer entry TTL given in seconds is at least that long
// (an empty string means "no TTL": the data never expires).
func VerifC09_SecondsToTTL() {
	seconds := rt.I32("seconds")
	rt.Assume(seconds > 0)
	s := SecondsToTTL(seconds)
	t, err := ReadTTL(s)
	rt.Cover("converted")
	rt.Assert(err == nil, "seconds-to-ttl-parses")
	if t.String() == "" {
		return
	}
	lives := int64(t.Minutes()) * 60
	rt.Assert(lives >= int64(seconds), "volume-ttl-covers-entry-ttl")
}
