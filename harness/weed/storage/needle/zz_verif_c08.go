package needle

import (
	rt "github.com/chrislusf/seaweedfs/weed/zzverifrt"
)

// C08: TTL binary forms round-trip.
func VerifC08_TTLBytes() {
	c, u := rt.U8("count"), rt.U8("unit")
	t := &TTL{Count: c, Unit: u}
	buf := make([]byte, 2)
	t.ToBytes(buf)
	t2 := LoadTTLFromBytes(buf)
	rt.Cover("decoded")
	rt.Assert(rt.And(t2.Count == c, t2.Unit == u), "ttl-bytes-roundtrip")
	// uint32 form: a TTL with Count==0 is "no TTL" and encodes to 0
	rt.Assume(c != 0)
	t3 := LoadTTLFromUint32(t.ToUint32())
	rt.Assert(rt.And(t3.Count == c, t3.Unit == u), "ttl-uint32-roundtrip")
}

// refDigits: value of an all-digit string (length <= 3), and whether it is all digits.
func verifDigits(b string) (int, bool) {
	v := 0
	ok := len(b) > 0
	for i := 0; i < len(b); i++ {
		d := b[i]
		ok = rt.And(ok, rt.And(d >= '0', d <= '9'))
		v = v*10 + int(d-'0')
	}
	return v, ok
}

// C08: a TTL string that is accepted denotes exactly the TTL that is returned.
// Text form: [+|-] digits [unit]; a missing unit means minutes (strconv's optional sign is part of
// the accepted syntax and keeps the meaning).
func VerifC08_TTLString() {
	n := rt.Len("len", 1, rt.Param("ttlstrlen", 3))
	s := rt.Str("s", n)
	t, err := ReadTTL(s)
	if err != nil {
		rt.Cover("rejected")
		return
	}
	rt.Cover("accepted")
	unit := s[n-1]
	body := s[:n-1]
	if rt.And(unit >= '0', unit <= '9') {
		body = s
		unit = 'm'
	}
	neg := false
	if len(body) > 1 {
		if body[0] == '+' {
			body = body[1:]
		} else if body[0] == '-' {
			neg = true
			body = body[1:]
		}
	}
	v, digits := verifDigits(body)
	if neg {
		v = -v
	}
	knownUnit := rt.Or(rt.Or(rt.Or(unit == 'm', unit == 'h'), rt.Or(unit == 'd', unit == 'w')), rt.Or(unit == 'M', unit == 'y'))
	// anything that is not  digits + known unit  with a count in [0,255] must have been rejected
	rt.Assert(digits, "ttl-string-nondigit-count-accepted")
	rt.Assert(knownUnit, "ttl-string-unknown-unit-accepted")
	rt.Assert(rt.And(v >= 0, v <= 255), "ttl-string-count-out-of-range-accepted")
	rt.Assert(rt.And(int(t.Count) == v, t.Unit == toStoredByte(unit)), "ttl-string-meaning")
	t2, err2 := ReadTTL(t.String())
	rt.Assert(err2 == nil, "ttl-string-reparse")
	if v != 0 {
		rt.Assert(rt.And(t2.Count == t.Count, t2.Unit == t.Unit), "ttl-string-roundtrip")
	}
}

// C08: file ids (volume, key, cookie) print and parse back to themselves.
func VerifC08_FileIdRoundTrip() {
	vid := VolumeId(rt.U32("vid"))
	key := rt.U64("key")
	cookie := rt.U32("cookie")
	if rt.Param("vidbits", 32) < 32 {
		rt.Assume(uint32(vid) < 1<<uint(rt.Param("vidbits", 32)))
	}
	// validity: needle keys are handed out from 1 upwards; key 0 is the "empty" id
	rt.Assume(key != 0)
	f := NewFileId(vid, key, cookie)
	s := f.String()
	g, err := ParseFileIdFromString(s)
	rt.Cover("parsed")
	rt.Assert(err == nil, "fid-own-string-accepted")
	rt.Assert(rt.And(rt.And(g.VolumeId == vid, uint64(g.Key) == key), uint32(g.Cookie) == cookie), "fid-roundtrip")
}

func verifHexVal(c byte) (v uint64, ok bool) {
	isd := rt.And(c >= '0', c <= '9')
	isl := rt.And(c >= 'a', c <= 'f')
	isu := rt.And(c >= 'A', c <= 'F')
	v = uint64(c - '0')
	if isl {
		v = uint64(c-'a') + 10
	}
	if isu {
		v = uint64(c-'A') + 10
	}
	return v, rt.Or(isd, rt.Or(isl, isu))
}

// C08: a file-id text that is accepted denotes exactly the (volume, key, cookie) returned.
func VerifC08_FileIdParse() {
	nv := rt.Len("vidlen", 1, rt.Param("vidlen", 2))
	nk := rt.Len("keylen", 1, rt.Param("keylen", 2))
	vs := rt.Str("vid", nv)
	ks := rt.Str("key", nk)
	cs := rt.Str("cookie", 8)
	g, err := ParseFileIdFromString(vs + "," + ks + cs)
	if err != nil {
		rt.Cover("rejected")
		return
	}
	rt.Cover("accepted")
	v, digits := verifDigits(vs)
	rt.Assert(digits, "fid-vid-nondigit-accepted")
	rt.Assert(int(g.VolumeId) == v, "fid-vid-meaning")
	var k uint64
	ok := true
	for i := 0; i < nk; i++ {
		h, o := verifHexVal(ks[i])
		k = k<<4 | h
		ok = rt.And(ok, o)
	}
	var c uint64
	for i := 0; i < 8; i++ {
		h, o := verifHexVal(cs[i])
		c = c<<4 | h
		ok = rt.And(ok, o)
	}
	rt.Assert(ok, "fid-nonhex-accepted")
	rt.Assert(rt.And(uint64(g.Key) == k, uint64(g.Cookie) == c), "fid-key-cookie-meaning")
}

func verifDigits32(b string) uint32 {
	var v uint32
	for i := 0; i < len(b); i++ {
		v = v*10 + uint32(b[i]-'0')
	}
	return v
}

// C08: a volume id text beyond 32 bits must not be silently decoded as another volume.
func VerifC08_VolumeIdRange() {
	// ten-digit decimal strings cover 2^32 .. 9999999999
	s := rt.Str("vid", 10)
	v, digits := verifDigits(s)
	rt.Assume(digits)
	rt.Assume(s[0] != '0')
	id, err := NewVolumeId(s)
	if err != nil {
		rt.Cover("rejected")
		return
	}
	rt.Cover("accepted")
	_ = v
	// for ten-digit texts without a leading zero numeric order is lexicographic order
	rt.Assert(s <= "4294967295", "vid-out-of-range-accepted")
	_ = id // the numeric meaning of accepted volume texts is checked on shorter texts in VerifC08_FileIdParse
}
