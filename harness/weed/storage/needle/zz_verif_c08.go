package needle

import (
	rt "github.com/chrislusf/seaweedfs/weed/zzverifrt"
)

// C08: TTL binary forms round-trip.
func VerifC08_TTLBytes() {
	c, u := rt.U8("count"), rt.U8("unit")
	t := &TTL{Count: c, Unit: u}
	buf := make([]byte, 2)
	t.ToBytes(buf)
	t2 := LoadTTLFromBytes(buf)
	rt.Cover("decoded")
	rt.Assert(rt.And(t2.Count == c, t2.Unit == u), "ttl-bytes-roundtrip")
	// uint32 form: a TTL with Count==0 is "no TTL" and encodes to 0
	rt.Assume(c != 0)
	t3 := LoadTTLFromUint32(t.ToUint32())
	rt.Assert(rt.And(t3.Count == c, t3.Unit == u), "ttl-uint32-roundtrip")
}

// refDigits: value of an all-digit string (length <= 3), and whether it is all digits.
func verifDigits(b string) (int, bool) {
	v := 0
	ok := len(b) > 0
	for i := 0; i < len(b); i++ {
		d := b[i]
		ok = rt.And(ok, rt.And(d >= '0', d <= '9'))
		v = v*10 + int(d-'0')
	}
	return v, ok
}

// C08: a TTL string that is accepted denotes exactly the TTL that is returned.
func VerifC08_TTLString() {
	n := rt.Len("len", 1, rt.Param("ttlstrlen", 3))
	s := rt.Str("s", n)
	t, err := ReadTTL(s)
	if err != nil {
		rt.Cover("rejected")
		return
	}
	rt.Cover("accepted")
	unit := s[n-1]
	body := s[:n-1]
	if rt.And(unit >= '0', unit <= '9') {
		body = s
		unit = 'm'
	}
	v, digits := verifDigits(body)
	knownUnit := rt.Or(rt.Or(rt.Or(unit == 'm', unit == 'h'), rt.Or(unit == 'd', unit == 'w')), rt.Or(unit == 'M', unit == 'y'))
	if rt.And(digits, rt.And(knownUnit, v <= 255)) {
		// plain in-range text: the returned TTL carries that count and unit, and prints back to a string with the same meaning
		rt.Assert(rt.And(int(t.Count) == v, t.Unit == toStoredByte(unit)), "ttl-string-meaning")
		t2, err2 := ReadTTL(t.String())
		rt.Assert(err2 == nil, "ttl-string-reparse")
		if v != 0 {
			rt.Assert(rt.And(t2.Count == t.Count, t2.Unit == t.Unit), "ttl-string-roundtrip")
		}
	} else {
		// anything else must not be silently accepted as some other TTL
		rt.Assert(false, "ttl-string-accepts-garbage@known:readttl-lenient")
	}
}
