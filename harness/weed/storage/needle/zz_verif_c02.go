package needle

import (
	"github.com/chrislusf/seaweedfs/weed/storage/backend"
	. "github.com/chrislusf/seaweedfs/weed/storage/types"
	rt "github.com/chrislusf/seaweedfs/weed/zzverifrt"
)

func verifLenFrom(tag string, set int) int {
	// length sets: 0 -> {0,1,2}; 1 -> {0,1,2,7,8,9}; 2 -> {0,1,254,255}
	switch set {
	case 1:
		return []int{0, 1, 2, 7, 8, 9}[rt.Choice(tag, 6)]
	case 2:
		return []int{0, 1, 254, 255}[rt.Choice(tag, 4)]
	}
	return rt.Len(tag, 0, 2)
}

// verifNeedle builds an arbitrary valid blob: every flag combination, symbolic ids, times, TTL and bytes.
func verifNeedle() *Needle {
	n := &Needle{Id: NeedleId(rt.U64("id")), Cookie: Cookie(rt.U32("cookie")), Flags: rt.U8("flags")}
	n.Data = rt.Bytes("data", verifLenFrom("dlen", rt.Param("dataset", 0)))
	n.Name = rt.Bytes("name", verifLenFrom("nlen", rt.Param("nameset", 0)))
	n.Mime = rt.Bytes("mime", verifLenFrom("mlen", rt.Param("mimeset", 0)))
	n.Pairs = rt.Bytes("pairs", rt.Len("plen", 0, rt.Param("pairsmax", 1)))
	n.PairsSize = uint16(len(n.Pairs))
	n.LastModified = rt.U64("lastmod")
	rt.Assume(n.LastModified < 1<<40) // five bytes are stored
	n.Ttl = &TTL{Count: rt.U8("ttlcount"), Unit: rt.U8("ttlunit")}
	n.AppendAtNs = rt.U64("appendat")
	n.Checksum = NewCRC(n.Data)
	return n
}

// C02 (a)+(b): records are 8-byte aligned, and decode(encode(n)) == n field by field.
func VerifC02_RoundTrip() {
	version := Version2
	if rt.Choice("version", 2) == 1 {
		version = Version3
	}
	n := verifNeedle()
	file := &backend.VerifMemFile{FileName: "v.dat", Data: make([]byte, 8)}
	offset, size, actual, err := n.Append(file, version)
	rt.Assert(err == nil, "append-ok")
	rt.Assert(offset == 8, "append-offset")
	rt.Assert(actual%8 == 0, "record-aligned")
	rt.Assert(int64(len(file.Data)) == 8+actual, "record-length-matches-actual-size")
	rt.Assert(actual == GetActualSize(n.Size, version), "actual-size-formula")
	rt.Assert(int(size) == len(n.Data), "returned-data-size")
	m := new(Needle)
	err = m.ReadData(file, int64(offset), n.Size, version)
	rt.Cover("decoded")
	rt.Assert(err == nil, "decode-ok")
	rt.Assert(rt.And(m.Id == n.Id, m.Cookie == n.Cookie), "id-cookie")
	rt.Assert(rt.BytesEq(m.Data, n.Data), "data")
	if version == Version3 {
		rt.Assert(m.AppendAtNs == n.AppendAtNs, "append-timestamp")
	}
	if len(n.Data) == 0 {
		// an empty blob is stored as a bare header: its metadata is not stored at all
		rt.Cover("empty")
		meta := rt.Or(n.Flags != 0, false)
		rt.Assert(!meta || m.Flags == n.Flags, "empty-blob-metadata@known:empty-blob-drops-metadata")
		return
	}
	rt.Assert(m.Flags == n.Flags, "flags")
	if n.HasName() {
		rt.Assert(rt.BytesEq(m.Name, n.Name), "name")
	}
	if n.HasMime() {
		rt.Assert(rt.BytesEq(m.Mime, n.Mime), "mime")
	}
	if n.HasLastModifiedDate() {
		rt.Assert(m.LastModified == n.LastModified, "last-modified")
	}
	if n.HasTtl() {
		rt.Assert(rt.And(m.Ttl.Count == n.Ttl.Count, m.Ttl.Unit == n.Ttl.Unit), "ttl")
	}
	if n.HasPairs() {
		rt.Assert(rt.BytesEq(m.Pairs, n.Pairs), "pairs")
	}
}

// C02 (d): a stored record with one altered data bit is reported as corrupted.
// CRC-32C itself is an uninterpreted function; the one property of it that is used is stated as an
// assumption: inputs of equal length differing in a single bit have different CRCs.
func VerifC02_Corruption() {
	version := Version2
	if rt.Choice("version", 2) == 1 {
		version = Version3
	}
	n := verifNeedle()
	rt.Assume(len(n.Data) > 0)
	file := &backend.VerifMemFile{FileName: "v.dat", Data: make([]byte, 8)}
	offset, _, _, err := n.Append(file, version)
	rt.Assert(err == nil, "append-ok")
	pos := rt.Len("pos", 0, len(n.Data)-1)
	bit := rt.U8("bit")
	rt.Assume(bit < 8)
	orig := append([]byte{}, n.Data...)
	flipped := append([]byte{}, n.Data...)
	flipped[pos] ^= 1 << bit
	rt.Assume(rt.CRC32C(0, orig) != rt.CRC32C(0, flipped))
	file.Data[8+NeedleHeaderSize+4+pos] ^= 1 << bit
	m := new(Needle)
	err = m.ReadData(file, int64(offset), n.Size, version)
	rt.Cover("read-corrupted")
	rt.Assert(err != nil, "corruption-detected")
}
