package storage

import (
	"os"

	"github.com/chrislusf/seaweedfs/weed/storage/backend"
	"github.com/chrislusf/seaweedfs/weed/storage/needle"
	. "github.com/chrislusf/seaweedfs/weed/storage/types"
	rt "github.com/chrislusf/seaweedfs/weed/zzverifrt"
)

type verifOp struct {
	id      NeedleId
	isWrite bool
	data    []byte
	datEnd  int // data file length after this operation's record
	idxEnd  int // number of index entries after this operation
}

// C03: a volume reopened after a crash at any point (the data file keeps any byte prefix, the index file
// any prefix of entries written after their data, possibly with a torn last entry) never serves wrong
// data: a blob whose record and index entry fully survived reads back exactly, a blob whose last
// surviving operation is a delete stays deleted, every successful read returns bytes that were written
// for that id, and a volume that reopened writable accepts and serves a new write.
func VerifC03_CrashRecovery() {
	dir := rt.TempDir()
	v := verifNewVolume(dir, needle.EMPTY_TTL, needle.Version3)
	var ops []verifOp
	k := rt.Param("ops", 2)
	idxEntries := 0
	for i := 0; i < k; i++ {
		id := NeedleId(1 + rt.Choice("id", 2))
		if rt.Choice("op", 2) == 0 {
			n := &needle.Needle{Id: id, Cookie: 7, Data: rt.Bytes("data", rt.Len("dlen", 1, rt.Param("datamax", 1)))}
			n.Checksum = needle.NewCRC(n.Data)
			_, _, unchanged, err := v.writeNeedle2(n, false)
			rt.Assert(err == nil, "write-ok")
			if unchanged {
				continue
			}
			idxEntries++
			ops = append(ops, verifOp{id: id, isWrite: true, data: n.Data, datEnd: len(verifDat(v).Data), idxEnd: idxEntries})
		} else {
			size, err := v.deleteNeedle2(&needle.Needle{Id: id, Cookie: 7})
			rt.Assert(err == nil, "delete-ok")
			if size == 0 {
				continue // nothing to delete: no record written
			}
			idxEntries++
			ops = append(ops, verifOp{id: id, datEnd: len(verifDat(v).Data), idxEnd: idxEntries})
		}
	}
	v.nm.Close()
	dat := verifDat(v).Data
	idxBytes := verifReadIdx(dir + "/1.idx")
	rt.Assert(len(idxBytes) == idxEntries*NeedleMapEntrySize, "index-has-one-entry-per-record")
	// crash point
	t := rt.Len("dat-cut", 8, len(dat))
	e := rt.Len("idx-cut", 0, idxEntries)
	torn := 0
	if e < idxEntries {
		torn = rt.Choice("torn-idx-bytes", 2) * 5 // 0 or 5 bytes of the next entry
	}
	// write order: an index entry is appended only after its data record was handed to the file
	for _, op := range ops {
		if op.idxEnd <= e {
			rt.Assume(true)
		}
	}
	dir2 := dir + "/reopened"
	os.MkdirAll(dir2, 0755)
	v2 := verifNewVolume(dir2, needle.EMPTY_TTL, needle.Version3)
	v2.DataBackend = &backend.VerifMemFile{FileName: dir2 + "/1.dat", Data: append([]byte{}, dat[:t]...)}
	f, err := os.OpenFile(dir2+"/1.idx", os.O_RDWR|os.O_CREATE|os.O_TRUNC, 0644)
	if err != nil {
		panic(err)
	}
	f.Write(idxBytes[:e*NeedleMapEntrySize+torn])
	_, cerr := CheckAndFixVolumeDataIntegrity(v2, f)
	rt.Cover("reopened")
	if cerr != nil {
		rt.Cover("read-only")
		return // marked read-only; served through the sorted index (outside this harness)
	}
	nm, lerr := LoadCompactNeedleMap(f)
	rt.Assert(lerr == nil, "index-loads")
	v2.nm = nm
	for id := NeedleId(1); id <= 2; id++ {
		// last operation on id whose index entry survived
		var last *verifOp
		for i := range ops {
			if ops[i].id == id && ops[i].idxEnd <= e {
				last = &ops[i]
			}
		}
		m := &needle.Needle{Id: id}
		_, rerr := v2.readNeedle(m, nil)
		if rerr == nil {
			// whatever is served was written for this id at some point
			served := false
			for i := range ops {
				if ops[i].id == id && ops[i].isWrite {
					served = rt.Or(served, rt.BytesEq(m.Data, ops[i].data))
				}
			}
			rt.Assert(served, "served-bytes-were-written-for-this-id")
		}
		if last == nil {
			rt.Assert(rerr != nil, "unindexed-blob-not-served")
			continue
		}
		if !last.isWrite {
			rt.Assert(rerr != nil, "deleted-blob-stays-deleted")
			continue
		}
		if last.datEnd <= t {
			rt.Cover("survivor")
			rt.Assert(rerr == nil, "fully-persisted-blob-readable")
			rt.Assert(rt.BytesEq(m.Data, last.data), "fully-persisted-blob-exact")
		}
	}
	// the reopened volume accepts and serves a new write
	n := &needle.Needle{Id: 9, Cookie: 7, Data: rt.Bytes("newdata", 1)}
	n.Checksum = needle.NewCRC(n.Data)
	_, _, _, werr := v2.writeNeedle2(n, false)
	rt.Assert(werr == nil, "reopened-volume-accepts-writes")
	m := &needle.Needle{Id: 9}
	_, rerr := v2.readNeedle(m, nil)
	rt.Assert(rt.And(rerr == nil, rt.BytesEq(m.Data, n.Data)), "reopened-volume-serves-new-write")
	// ... and the new record must not show up under an old id (an index entry that survived the
	// recovery although its data did not would now point at the new record)
	for id := NeedleId(1); id <= 2; id++ {
		o := &needle.Needle{Id: id}
		if _, oerr := v2.readNeedle(o, nil); oerr == nil {
			rt.Assert(o.Id == id, "old-id-never-serves-a-record-written-later")
			served := false
			for i := range ops {
				if ops[i].id == id && ops[i].isWrite {
					served = rt.Or(served, rt.BytesEq(o.Data, ops[i].data))
				}
			}
			rt.Assert(served, "old-id-still-serves-only-bytes-written-for-it")
		}
	}
}

func verifReadIdx(path string) []byte {
	f, err := os.Open(path)
	if err != nil {
		panic(err)
	}
	defer f.Close()
	st, _ := f.Stat()
	b := make([]byte, st.Size())
	f.ReadAt(b, 0)
	return b
}
