package storage

import (
	"os"

	"github.com/chrislusf/seaweedfs/weed/pb/volume_server_pb"
	"github.com/chrislusf/seaweedfs/weed/storage/backend"
	"github.com/chrislusf/seaweedfs/weed/storage/needle"
	"github.com/chrislusf/seaweedfs/weed/storage/super_block"
	rt "github.com/chrislusf/seaweedfs/weed/zzverifrt"
)

// verifNewVolume builds a Volume directly (no directory scan / load): in-memory data file holding a
// real super block, the real in-memory needle map over an index file in the scratch directory.
func verifNewVolume(dir string, ttl *needle.TTL, version needle.Version) *Volume {
	v := &Volume{Id: 1, dir: dir, dirIdx: dir, volumeInfo: &volume_server_pb.VolumeInfo{}, location: &DiskLocation{Directory: dir, IdxDirectory: dir}}
	v.SuperBlock = super_block.SuperBlock{Version: version, ReplicaPlacement: &super_block.ReplicaPlacement{}, Ttl: ttl}
	dat := &backend.VerifMemFile{FileName: dir + "/1.dat"}
	dat.WriteAt(v.SuperBlock.Bytes(), 0)
	v.DataBackend = dat
	idxFile, err := os.OpenFile(dir+"/1.idx", os.O_RDWR|os.O_CREATE|os.O_TRUNC, 0644)
	if err != nil {
		panic(err)
	}
	v.nm = NewCompactNeedleMap(idxFile)
	return v
}

func verifDat(v *Volume) *backend.VerifMemFile { return v.DataBackend.(*backend.VerifMemFile) }

var _ = rt.Cover
