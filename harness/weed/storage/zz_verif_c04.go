package storage

import (
	"os"

	"github.com/chrislusf/seaweedfs/weed/pb/volume_server_pb"
	"github.com/chrislusf/seaweedfs/weed/storage/backend"
	"github.com/chrislusf/seaweedfs/weed/storage/needle"
	"github.com/chrislusf/seaweedfs/weed/storage/super_block"
	. "github.com/chrislusf/seaweedfs/weed/storage/types"
	rt "github.com/chrislusf/seaweedfs/weed/zzverifrt"
)

//verif:use github.com/chrislusf/seaweedfs/weed/storage/needle_map

// verifNewFileVolume: a volume whose .dat and .idx are files of the scratch directory, as compaction
// needs them (it reopens them by name).
func verifNewFileVolume(dir string, ttl *needle.TTL) *Volume {
	v := &Volume{Id: 1, dir: dir, dirIdx: dir, volumeInfo: &volume_server_pb.VolumeInfo{}, location: &DiskLocation{Directory: dir, IdxDirectory: dir}}
	v.needleMapKind = NeedleMapInMemory
	v.SuperBlock = super_block.SuperBlock{Version: needle.Version3, ReplicaPlacement: &super_block.ReplicaPlacement{}, Ttl: ttl}
	f, err := os.OpenFile(v.FileName(".dat"), os.O_RDWR|os.O_CREATE|os.O_TRUNC, 0644)
	if err != nil {
		panic(err)
	}
	v.DataBackend = backend.NewDiskFile(f)
	v.DataBackend.WriteAt(v.SuperBlock.Bytes(), 0)
	idxFile, err := os.OpenFile(v.FileName(".idx"), os.O_RDWR|os.O_CREATE|os.O_TRUNC, 0644)
	if err != nil {
		panic(err)
	}
	v.nm = NewCompactNeedleMap(idxFile)
	return v
}

// Loading a volume from its files, reduced to what the compaction paths need: open the data file,
// read the super block, and (for CommitCompact) rebuild the in-memory needle map from the index file.
// Tiered storage, .vif files, index repair and the other needle map kinds are not part of it.
//
//verif:redirect (*github.com/chrislusf/seaweedfs/weed/storage.Volume).load VerifC04_Load
func VerifC04_Load(v *Volume, alsoLoadIndex bool, createDatIfMissing bool, needleMapKind NeedleMapKind, preallocate int64) error {
	if v.volumeInfo == nil {
		v.volumeInfo = &volume_server_pb.VolumeInfo{}
	}
	f, err := os.OpenFile(v.FileName(".dat"), os.O_RDWR, 0644)
	if err != nil {
		return err
	}
	v.DataBackend = backend.NewDiskFile(f)
	if v.SuperBlock, err = super_block.ReadSuperBlock(v.DataBackend); err != nil {
		return err
	}
	if alsoLoadIndex {
		idxFile, err := os.OpenFile(v.FileName(".idx"), os.O_RDWR|os.O_CREATE, 0644)
		if err != nil {
			return err
		}
		if v.nm, err = LoadCompactNeedleMap(idxFile); err != nil {
			return err
		}
	}
	return nil
}

type verifC04Read struct {
	found  bool
	data   []byte
	cookie Cookie
	flags  byte
	ttl    bool
}

func verifC04ReadAll(v *Volume, ids []NeedleId) []verifC04Read {
	out := make([]verifC04Read, len(ids))
	for i, id := range ids {
		m := &needle.Needle{Id: id}
		_, err := v.readNeedle(m, nil)
		if err == nil {
			out[i] = verifC04Read{found: true, data: m.Data, cookie: m.Cookie, flags: m.Flags, ttl: m.HasTtl()}
		}
	}
	return out
}

// C04: for any short history of uploads and deletes before a compaction starts and while it runs,
// with either compaction algorithm, every id reads the same immediately after CommitCompact as it
// did immediately before: nothing readable is dropped, nothing deleted comes back, contents and
// flags are unchanged.
func VerifC04_CompactInvisible() {
	dir := rt.TempDir()
	var volTtl *needle.TTL = needle.EMPTY_TTL
	if rt.Param("ttl", 0) == 1 && rt.Bool("ttl-volume") {
		volTtl = &needle.TTL{Count: 1, Unit: needle.Minute}
	}
	v := verifNewFileVolume(dir, volTtl)
	ids := []NeedleId{NeedleId(rt.U8("id0")), NeedleId(rt.U8("id1"))}
	rt.Assume(rt.And(ids[0] != 0, ids[0] < ids[1]))
	step := func() {
		id := ids[rt.Choice("which", 2)]
		if rt.Bool("delete") {
			v.deleteNeedle2(&needle.Needle{Id: id, Cookie: 0x11})
			return
		}
		n := &needle.Needle{Id: id, Cookie: 0x11}
		n.Data = rt.Bytes("data", rt.Len("dlen", 0, 1))
		n.Checksum = needle.NewCRC(n.Data)
		if rt.Param("ttl", 0) == 1 && rt.Bool("ttl-needle") {
			n.Ttl = &needle.TTL{Count: 1, Unit: needle.Minute}
			n.SetHasTtl()
			n.LastModified = uint64(rt.U32("lastmod"))
			n.SetHasLastModifiedDate()
		}
		v.writeNeedle2(n, false)
	}
	for i, k := 0, rt.Param("before", 2); i < k; i++ {
		step()
	}
	var err error
	if rt.Bool("compact2") {
		err = v.Compact2(0, 0)
	} else {
		err = v.Compact(0, 0)
	}
	rt.Assert(err == nil, "compaction-succeeds")
	for i, k := 0, rt.Param("during", 1); i < k; i++ {
		step()
	}
	before := verifC04ReadAll(v, ids)
	err = v.CommitCompact()
	rt.Assert(err == nil, "commit-succeeds")
	rt.Cover("committed")
	after := verifC04ReadAll(v, ids)
	for i := range ids {
		if before[i].found {
			if before[i].ttl && rt.Param("onesecond", 0) != 1 {
				// a TTL blob may legitimately expire between the two reads (not when the whole run
				// lies within one second: the shortest TTL is a minute)
				if !after[i].found {
					continue
				}
			}
			if len(before[i].data) == 0 {
				rt.Assert(after[i].found, "readable-empty-blob-still-readable-after-commit@known:compaction-reload-drops-empty-blobs")
			} else {
				if before[i].ttl {
					rt.Assert(after[i].found, "unexpired-ttl-blob-still-readable-after-commit")
				} else {
					rt.Assert(after[i].found, "readable-blob-still-readable-after-commit")
				}
			}
			if after[i].found {
				rt.Assert(rt.BytesEq(after[i].data, before[i].data), "content-unchanged-by-compaction")
				if len(before[i].data) > 0 {
					rt.Assert(after[i].cookie == before[i].cookie && after[i].flags == before[i].flags, "cookie-and-flags-unchanged-by-compaction")
				}
			}
		} else {
			rt.Assert(!after[i].found, "unreadable-blob-stays-unreadable-after-commit")
		}
	}
}
