package backend

import (
	"io"
	"time"
)

// VerifMemFile is an in-memory BackendStorageFile used by the verification harnesses
// (executed symbolically by the engine and natively during replay).
type VerifMemFile struct {
	Data     []byte
	FileName string
	Mod      time.Time
	Closed   bool
	Syncs    int
}

func (f *VerifMemFile) ReadAt(p []byte, off int64) (n int, err error) {
	if off < 0 {
		return 0, io.EOF
	}
	if off >= int64(len(f.Data)) {
		return 0, io.EOF
	}
	n = copy(p, f.Data[off:])
	if n < len(p) {
		return n, io.EOF
	}
	return n, nil
}

func (f *VerifMemFile) WriteAt(p []byte, off int64) (n int, err error) {
	end := int(off) + len(p)
	for len(f.Data) < end {
		f.Data = append(f.Data, 0)
	}
	copy(f.Data[off:], p)
	return len(p), nil
}

func (f *VerifMemFile) Truncate(off int64) error {
	for int64(len(f.Data)) < off {
		f.Data = append(f.Data, 0)
	}
	f.Data = f.Data[:off]
	return nil
}

func (f *VerifMemFile) Close() error { f.Closed = true; return nil }

func (f *VerifMemFile) GetStat() (datSize int64, modTime time.Time, err error) {
	return int64(len(f.Data)), f.Mod, nil
}

func (f *VerifMemFile) Name() string { return f.FileName }

func (f *VerifMemFile) Sync() error { f.Syncs++; return nil }
