package storage

import (
	"github.com/chrislusf/seaweedfs/weed/storage/needle"
	. "github.com/chrislusf/seaweedfs/weed/storage/types"
)

// Exported helpers for harnesses in other packages (weed/server) that drive real volumes.

func VhNewFileVolume(dir string) *Volume { return verifNewFileVolume(dir, needle.EMPTY_TTL) }

func VhPut(v *Volume, id uint64, data []byte) error {
	n := &needle.Needle{Id: NeedleId(id), Cookie: 0x11, Data: data}
	n.Checksum = needle.NewCRC(n.Data)
	_, _, _, err := v.writeNeedle2(n, false)
	return err
}

func VhDelete(v *Volume, id uint64) error {
	_, err := v.deleteNeedle2(&needle.Needle{Id: NeedleId(id), Cookie: 0x11})
	return err
}

func VhRead(v *Volume, id uint64) (found bool, data []byte) {
	m := &needle.Needle{Id: NeedleId(id)}
	if _, err := v.readNeedle(m, nil); err != nil {
		return false, nil
	}
	return true, m.Data
}

// VhStore returns a Store that serves exactly this volume.
func VhStore(v *Volume) *Store {
	loc := &DiskLocation{Directory: v.dir, IdxDirectory: v.dirIdx, volumes: map[needle.VolumeId]*Volume{v.Id: v}}
	return &Store{Locations: []*DiskLocation{loc}}
}

// VhVacuum compacts and commits like the volume server's vacuum does (Compact2 + CommitCompact).
func VhVacuum(v *Volume) error {
	if err := v.Compact2(0, 0); err != nil {
		return err
	}
	return v.CommitCompact()
}

// VhAdoptRevision is the step of `weed backup` after its local compaction.
func VhAdoptRevision(v *Volume, rev uint32) {
	v.SuperBlock.CompactionRevision = uint16(rev)
	v.DataBackend.WriteAt(v.SuperBlock.Bytes(), 0)
}

func VhRevision(v *Volume) uint32 { return uint32(v.SuperBlock.CompactionRevision) }

func VhDatSize(v *Volume) uint64 {
	s, _, _ := v.FileStat()
	return s
}
