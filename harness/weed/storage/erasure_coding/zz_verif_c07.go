package erasure_coding

import (
	"os"

	"github.com/chrislusf/seaweedfs/weed/storage/idx"
	"github.com/chrislusf/seaweedfs/weed/storage/needle_map"
	"github.com/chrislusf/seaweedfs/weed/storage/types"
	rt "github.com/chrislusf/seaweedfs/weed/zzverifrt"
)

type verifEntry struct {
	key    types.NeedleId
	offset types.Offset
	size   types.Size
}

// verifSortedIndex writes a sorted index of m entries with arbitrary strictly increasing keys.
func verifSortedIndex(path string, m int) []verifEntry {
	f, err := os.OpenFile(path, os.O_RDWR|os.O_CREATE|os.O_TRUNC, 0644)
	if err != nil {
		panic(err)
	}
	defer f.Close()
	var es []verifEntry
	var prev types.NeedleId
	for i := 0; i < m; i++ {
		tag := string(rune('0' + i))
		e := verifEntry{key: types.NeedleId(rt.U64("key" + tag)), offset: types.ToOffset(int64(rt.U32("off"+tag)) * 8), size: types.Size(rt.I32("size" + tag))}
		rt.Assume(e.size > 0) // live entries
		if i > 0 {
			rt.Assume(e.key > prev)
		}
		prev = e.key
		es = append(es, e)
		f.Write(needle_map.ToBytes(e.key, e.offset, e.size))
	}
	return es
}

func verifReadAll(path string) []byte {
	f, err := os.Open(path)
	if err != nil {
		return nil
	}
	defer f.Close()
	st, _ := f.Stat()
	b := make([]byte, st.Size())
	f.ReadAt(b, 0)
	return b
}

// C07: deleting a needle from an EC volume marks exactly that index entry as deleted.
func VerifC07_Delete() {
	dir := rt.TempDir()
	base := dir + "/1"
	m := rt.Len("entries", 0, rt.Param("entries", 3))
	es := verifSortedIndex(base+".ecx", m)
	ecx, err := os.OpenFile(base+".ecx", os.O_RDWR, 0644)
	if err != nil {
		panic(err)
	}
	// the journal may hold deletions of an earlier mount; the volume opens it the way NewEcVolume does
	var before []byte
	if rt.Bool("journal-not-empty") {
		before = rt.Bytes("journal-before", types.NeedleIdSize)
		jf, jerr := os.OpenFile(base+".ecj", os.O_RDWR|os.O_CREATE|os.O_TRUNC, 0644)
		if jerr != nil {
			panic(jerr)
		}
		jf.Write(before)
		jf.Close()
	}
	ecj, err := os.OpenFile(base+".ecj", os.O_RDWR|os.O_CREATE, 0644)
	if err != nil {
		panic(err)
	}
	ev := &EcVolume{ecxFile: ecx, ecxFileSize: int64(m * types.NeedleMapEntrySize), ecjFile: ecj}
	del := types.NeedleId(rt.U64("del"))
	err = ev.DeleteNeedleFromEcx(del)
	rt.Cover("deleted")
	rt.Assert(err == nil, "delete-ok")
	present := false
	after := verifReadAll(base + ".ecx")
	rt.Assert(len(after) == m*types.NeedleMapEntrySize, "ecx-length-unchanged")
	for i := 0; i < m; i++ {
		k, o, s := idx.IdxFileEntry(after[i*types.NeedleMapEntrySize : (i+1)*types.NeedleMapEntrySize])
		rt.Assert(rt.And(k == es[i].key, o == es[i].offset), "ecx-key-offset-untouched")
		if es[i].key == del {
			present = true
			rt.Cover("hit")
			rt.Assert(s == types.TombstoneFileSize, "ecx-target-tombstoned")
		} else {
			rt.Assert(s == es[i].size, "ecx-other-entry-untouched")
		}
		// the read path agrees
		_, fs, ferr := ev.FindNeedleFromEcx(es[i].key)
		rt.Assert(ferr == nil, "find-ok")
		if es[i].key == del {
			rt.Assert(fs.IsDeleted(), "find-target-deleted")
		} else {
			rt.Assert(fs == es[i].size, "find-other-live")
		}
	}
	journal := verifReadAll(base + ".ecj")
	if present {
		want := make([]byte, types.NeedleIdSize)
		types.NeedleIdToBytes(want, del)
		rt.Assert(rt.BytesEq(journal, append(append([]byte(nil), before...), want...)), "journal-records-the-delete-after-what-it-held")
	} else {
		rt.Cover("miss")
		rt.Assert(rt.BytesEq(journal, before), "journal-untouched-on-miss")
	}
}

// C07: rebuilding the sorted index from the original index plus the journal gives the same live set,
// and so does regenerating a plain .idx from them.
func VerifC07_Rebuild() {
	dir := rt.TempDir()
	base := dir + "/2"
	m := rt.Len("entries", 1, rt.Param("entries", 3))
	es := verifSortedIndex(base+".ecx", m)
	del := types.NeedleId(rt.U64("del"))
	// journal written by an earlier process
	jb := make([]byte, types.NeedleIdSize)
	types.NeedleIdToBytes(jb, del)
	ecj, _ := os.OpenFile(base+".ecj", os.O_RDWR|os.O_CREATE, 0644)
	ecj.Write(jb)
	ecj.Close()
	// .idx regeneration from ecx + ecj
	rt.Assert(WriteIdxFileFromEcIndex(base) == nil, "idx-regeneration-ok")
	idxBytes := verifReadAll(base + ".idx")
	live := map[types.NeedleId]types.Size{}
	for i := 0; i+types.NeedleMapEntrySize <= len(idxBytes); i += types.NeedleMapEntrySize {
		k, _, s := idx.IdxFileEntry(idxBytes[i : i+types.NeedleMapEntrySize])
		if s.IsDeleted() {
			delete(live, k)
		} else {
			live[k] = s
		}
	}
	rt.Assert(RebuildEcxFile(base) == nil, "rebuild-ok")
	rt.Cover("rebuilt")
	after := verifReadAll(base + ".ecx")
	rt.Assert(len(after) == m*types.NeedleMapEntrySize, "ecx-length-unchanged")
	for i := 0; i < m; i++ {
		k, o, s := idx.IdxFileEntry(after[i*types.NeedleMapEntrySize : (i+1)*types.NeedleMapEntrySize])
		rt.Assert(rt.And(k == es[i].key, o == es[i].offset), "rebuild-key-offset-untouched")
		ls, inIdx := live[es[i].key]
		if es[i].key == del {
			rt.Assert(s == types.TombstoneFileSize, "rebuild-target-tombstoned")
			rt.Assert(!inIdx, "idx-target-deleted")
		} else {
			rt.Assert(s == es[i].size, "rebuild-other-entry-untouched")
			rt.Assert(rt.And(inIdx, ls == es[i].size), "idx-other-live")
		}
	}
	_, statErr := os.Stat(base + ".ecj")
	rt.Assert(statErr != nil, "journal-removed-after-rebuild")
}
