package erasure_coding

import (
	"io"
	"os"

	"github.com/klauspost/reedsolomon"

	"github.com/chrislusf/seaweedfs/weed/storage/types"
	rt "github.com/chrislusf/seaweedfs/weed/zzverifrt"
)

// Reed-Solomon arithmetic is outside the claim: parity content does not matter for layout/locate.
type verifRS struct{}

func (verifRS) Encode(shards [][]byte) error                         { return nil }
func (verifRS) Verify(shards [][]byte) (bool, error)                 { return true, nil }
func (verifRS) Reconstruct(shards [][]byte) error                    { return nil }
func (verifRS) ReconstructData(shards [][]byte) error                { return nil }
func (verifRS) Update(shards [][]byte, newDatashards [][]byte) error { return nil }
func (verifRS) Split(data []byte) ([][]byte, error)                  { return nil, nil }
func (verifRS) Join(dst io.Writer, shards [][]byte, outSize int) error {
	return nil
}

//verif:redirect github.com/klauspost/reedsolomon.New verifRSNew
func verifRSNew(dataShards, parityShards int, opts ...reedsolomon.Option) (reedsolomon.Encoder, error) {
	return verifRS{}, nil
}

func verifReadFile(path string) []byte {
	f, err := os.Open(path)
	if err != nil {
		panic(err)
	}
	defer f.Close()
	st, _ := f.Stat()
	b := make([]byte, st.Size())
	f.ReadAt(b, 0)
	return b
}

// verifEncode writes a data file of n arbitrary bytes, encodes it with the real encoder (scaled block
// sizes) and returns the data and the ten data shards laid end to end.
func verifEncode(L, S int64, buf int, n int) (dat []byte, flat []byte, shardSize int) {
	base := rt.TempDir() + "/3"
	dat = rt.Bytes("dat", n)
	f, err := os.OpenFile(base+".dat", os.O_RDWR|os.O_CREATE|os.O_TRUNC, 0644)
	if err != nil {
		panic(err)
	}
	f.Write(dat)
	f.Close()
	rt.Assert(generateEcFiles(base, buf, L, S) == nil, "encode-ok")
	for i := 0; i < TotalShardsCount; i++ {
		sh := verifReadFile(base + ToExt(i))
		if i == 0 {
			shardSize = len(sh)
		}
		rt.Assert(len(sh) == shardSize, "shards-equal-length")
		if i < DataShardsCount {
			flat = append(flat, sh...)
		}
	}
	return
}

// knownRegion: data-file sizes whose last large-row's worth of data is within two small rows of a
// full large row; the locator cannot tell "one more large row" from "L/S small rows" from the shard size.
func verifKnownRegion(L, S int64, n int) bool {
	if n == 0 {
		return false
	}
	rem := (int64(n)-1)%(DataShardsCount*L) + 1
	return rem > DataShardsCount*L-2*DataShardsCount*S
}

// C06 (layout): the ten data shards, re-interleaved with the encoder's row structure, are the data file
// padded with zeros.
func VerifC06_Layout() {
	L, S := int64(rt.Param("L", 8)), int64(rt.Param("S", 1))
	n := rt.Len("datsize", 0, rt.Param("maxdat", 243))
	dat, flat, shardSize := verifEncode(L, S, rt.Param("buf", 1), n)
	rt.Cover("encoded")
	// reference decoder: large rows while more than one large row remains, then small rows
	q := 0
	row := int64(0) // offset inside each shard
	remaining := int64(n)
	for remaining > DataShardsCount*L {
		for s := 0; s < DataShardsCount; s++ {
			for k := int64(0); k < L; k++ {
				rt.Assert(flat[s*shardSize+int(row+k)] == dat[q], "layout-large-row")
				q++
			}
		}
		row += L
		remaining -= DataShardsCount * L
	}
	for remaining > 0 {
		for s := 0; s < DataShardsCount; s++ {
			for k := int64(0); k < S; k++ {
				want := byte(0)
				if q < n {
					want = dat[q]
				}
				rt.Assert(flat[s*shardSize+int(row+k)] == want, "layout-small-row")
				q++
			}
		}
		row += S
		remaining -= DataShardsCount * S
	}
	rt.Assert(int(row) == shardSize, "shard-size")
}

// C06 (locate): every byte range of the data file, located from the shard size alone as the EC read
// path does, reads back exactly the stored bytes. Offsets and lengths are enumerated (the data bytes
// are symbolic, so a wrong location compares two different variables).
func VerifC06_Locate() {
	L, S := int64(rt.Param("L", 8)), int64(rt.Param("S", 1))
	n := rt.Len("datsize", 1, rt.Param("maxdat", 243))
	dat, flat, shardSize := verifEncode(L, S, rt.Param("buf", 1), n)
	known := verifKnownRegion(L, S, n)
	rt.Cover("located")
	for size := 1; size <= rt.Param("maxsize", 3) && size <= n; size++ {
		for p := 0; p+size <= n; p++ {
			intervals := LocateData(L, S, int64(DataShardsCount*shardSize), int64(p), types.Size(size))
			ok := true
			total := 0
			for _, iv := range intervals {
				sid, off := iv.ToShardIdAndOffset(L, S)
				for j := 0; j < int(iv.Size); j++ {
					di := p + total + j
					if int(sid) < 0 || int(sid) >= DataShardsCount || off+int64(j) < 0 || off+int64(j) >= int64(shardSize) || di >= n {
						ok = false
					} else {
						ok = rt.And(ok, flat[int(sid)*shardSize+int(off)+j] == dat[di])
					}
				}
				total += int(iv.Size)
			}
			ok = rt.And(ok, total == size)
			if known {
				rt.Assert(ok, "located-bytes-are-the-stored-bytes@known:ec-locate-row-boundary")
			} else {
				rt.Assert(ok, "located-bytes-are-the-stored-bytes")
			}
		}
	}
}

// C06 (locate arithmetic at production scale): for every data-file size and every byte offset, the
// (shard, offset) computed by the real locator from 10*shardSize equals the position the encoder's row
// structure gives that byte. The encoder's row structure used here is the one VerifC06_Layout checks
// against the real encoder.
func VerifC06_LocateArith() {
	L := int64(rt.Param("arithL", 1<<30))
	S := int64(rt.Param("arithS", 1<<20))
	n := rt.I64("datsize")
	rt.Assume(rt.And(n >= 1, n <= int64(rt.Param("arithmaxlog", 43)+0)*0+(int64(1)<<uint(rt.Param("arithmaxlog", 43)))))
	p := rt.I64("offset")
	rt.Assume(rt.And(p >= 0, p < n))
	r := (n - 1) / (DataShardsCount * L)
	rem := n - r*DataShardsCount*L
	c := (rem + DataShardsCount*S - 1) / (DataShardsCount * S)
	shardSize := r*L + c*S
	var wantShard, wantOff int64
	if p < r*DataShardsCount*L {
		row := p / (DataShardsCount * L)
		in := p % (DataShardsCount * L)
		wantShard, wantOff = in/L, row*L+in%L
	} else {
		q := p - r*DataShardsCount*L
		row := q / (DataShardsCount * S)
		in := q % (DataShardsCount * S)
		wantShard, wantOff = in/S, r*L+row*S+in%S
	}
	ivs := LocateData(L, S, DataShardsCount*shardSize, p, 1)
	rt.Cover("located")
	rt.Assert(len(ivs) == 1, "one-interval-for-one-byte")
	sid, off := ivs[0].ToShardIdAndOffset(L, S)
	good := rt.And(int64(sid) == wantShard, off == wantOff)
	if rem > DataShardsCount*L-2*DataShardsCount*S {
		rt.Assert(good, "locator-agrees-with-encoder@known:ec-locate-row-boundary")
	} else {
		rt.Assert(good, "locator-agrees-with-encoder")
	}
}
