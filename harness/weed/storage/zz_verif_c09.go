package storage

import (

	"github.com/chrislusf/seaweedfs/weed/storage/needle"
	. "github.com/chrislusf/seaweedfs/weed/storage/types"
	rt "github.com/chrislusf/seaweedfs/weed/zzverifrt"
)

func verifTTL(tag string) *needle.TTL {
	t := &needle.TTL{Count: rt.U8(tag + "count"), Unit: rt.U8(tag + "unit")}
	rt.Assume(rt.And(t.Count >= 1, rt.And(t.Unit >= needle.Minute, t.Unit <= needle.Year)))
	return t
}

// C09 (a): a blob written with a TTL is readable until the TTL has elapsed (measured from the moment
// it was appended) and is gone one minute after that at the latest.
func VerifC09_ReadUntilExpiry() {
	dir := rt.TempDir()
	v := verifNewVolume(dir, needle.EMPTY_TTL, needle.Version3)
	ttl := verifTTL("ttl")
	n := &needle.Needle{Id: NeedleId(rt.U64("id")), Cookie: Cookie(rt.U32("cookie")), Data: rt.Bytes("data", 1)}
	rt.Assume(n.Id != 0)
	n.Ttl = ttl
	n.SetHasTtl()
	// as CreateNeedleFromRequest: the last-modified flag is always set, the value may come from the client
	n.LastModified = rt.U64("lastmod")
	rt.Assume(n.LastModified < 1<<40)
	n.SetHasLastModifiedDate()
	n.Checksum = needle.NewCRC(n.Data)
	_, _, _, err := v.writeNeedle2(n, false)
	rt.Assert(err == nil, "write-ok")
	// oracle in whole seconds (the engine's clock is symbolic; dates up to 2106)
	appendedSec := int64(v.lastAppendAtNs / 1000000000)
	ttlSec := int64(ttl.Minutes()) * 60
	before := rt.Now().Unix()
	m := &needle.Needle{Id: n.Id}
	count, rerr := v.readNeedle(m, nil)
	after := rt.Now().Unix()
	rt.Cover("read")
	if after < appendedSec+ttlSec {
		rt.Assert(rt.And(rerr == nil, count == 1), "readable-before-ttl-elapsed")
		rt.Assert(rt.BytesEq(m.Data, n.Data), "readable-data")
	}
	if before > appendedSec+ttlSec+60 {
		rt.Assert(rerr != nil, "gone-after-ttl-elapsed")
	}
}

// C09 (c): expiry-driven volume deletion (expired && expiredLongEnough) never fires while a blob of
// the volume is still within its TTL, whatever last-modified time the client supplied.
func VerifC09_VolumeExpiry() {
	dir := rt.TempDir()
	vttl := verifTTL("vttl")
	v := verifNewVolume(dir, vttl, needle.Version3)
	// the volume was loaded earlier: its last-modified starts as the data file's mtime
	t0 := rt.Now()
	created := rt.U64("created")
	rt.Assume(created <= uint64(t0.Unix()))
	v.lastModifiedTsSeconds = created
	n := &needle.Needle{Id: NeedleId(rt.U64("id")), Cookie: Cookie(rt.U32("cookie")), Data: rt.Bytes("data", 1)}
	rt.Assume(n.Id != 0)
	n.Ttl = needle.EMPTY_TTL // inherits the volume TTL in writeNeedle2
	clientTs := rt.Choice("client-supplied-lastmod", 2) == 1
	if clientTs {
		n.LastModified = rt.U64("lastmod")
		rt.Assume(rt.And(n.LastModified >= 1, n.LastModified < 1<<40))
	} else {
		n.LastModified = uint64(rt.Now().Unix()) // CreateNeedleFromRequest default
	}
	n.SetHasLastModifiedDate()
	n.Checksum = needle.NewCRC(n.Data)
	_, _, _, err := v.writeNeedle2(n, false)
	rt.Assert(err == nil, "write-ok")
	appendedSec := int64(v.lastAppendAtNs / 1000000000)
	ttlSec := int64(vttl.Minutes()) * 60
	doomed := v.expired(rt.U64("contentsize"), rt.U64("limit")) && v.expiredLongEnough(MAX_TTL_VOLUME_REMOVAL_DELAY)
	now := rt.Now().Unix()
	rt.Cover("checked")
	if doomed {
		rt.Cover("doomed")
		if clientTs {
			// measured from the append time, which is what reads use
			rt.Assert(now >= appendedSec+ttlSec, "volume-deleted-while-blob-within-ttl@known:volume-expiry-trusts-client-lastmodified")
		} else {
			// server-assigned timestamp: the TTL clock of the volume starts at request arrival, which precedes
			// the append by the request's processing time (that gap is outside the claim)
			rt.Assert(now >= int64(n.LastModified)+ttlSec, "volume-deleted-while-blob-within-ttl")
		}
	}
}
