package storage

import (
	"github.com/chrislusf/seaweedfs/weed/storage/needle"
	. "github.com/chrislusf/seaweedfs/weed/storage/types"
	rt "github.com/chrislusf/seaweedfs/weed/zzverifrt"
)

type verifRefBlob struct {
	id      NeedleId
	live    bool
	cookie  Cookie
	data    []byte
	name    []byte
	hasName bool
	lastMod uint64
	gz      bool
}

// C01: read-your-writes on a volume: after any history of uploads, overwrites and deletes a read returns
// the data and metadata of the last successful write, or not-found after a delete; a write with a
// different cookie is rejected without effect; a read-only volume rejects writes and deletes.
func VerifC01_History() {
	dir := rt.TempDir()
	v := verifNewVolume(dir, needle.EMPTY_TTL, needle.Version3)
	ids := []NeedleId{NeedleId(rt.U64("id0")), NeedleId(rt.U64("id1"))}
	rt.Assume(rt.And(ids[0] != 0, ids[1] != 0))
	rt.Assume(rt.And(ids[0] < 1<<20, ids[1] < 1<<20))
	var ref []*verifRefBlob
	find := func(id NeedleId) *verifRefBlob {
		for _, b := range ref {
			if b.id == id {
				return b
			}
		}
		return nil
	}
	readOnly := false
	k := rt.Param("steps", 2)
	for step := 0; step < k; step++ {
		id := ids[rt.Choice("which", 2)]
		switch rt.Choice("op", 4) {
		case 0: // upload / overwrite
			n := &needle.Needle{Id: id, Cookie: Cookie(rt.U32("cookie"))}
			n.Data = rt.Bytes("data", rt.Len("dlen", 0, rt.Param("datamax", 1)))
			hasName := rt.Choice("hasname", 2) == 1
			if hasName {
				n.Name = rt.Bytes("name", 1)
				n.SetHasName()
			}
			if rt.Bool("gz") {
				n.SetIsCompressed()
			}
			n.LastModified = rt.U64("lastmod")
			rt.Assume(n.LastModified < 1<<40)
			n.SetHasLastModifiedDate()
			n.Checksum = needle.NewCRC(n.Data)
			var err error
			unchanged := false
			if v.IsReadOnly() { // the guard of Store.WriteVolumeNeedle
				err = ErrorNotFound
			} else {
				_, _, unchanged, err = v.writeNeedle2(n, false)
			}
			old := find(id)
			if readOnly {
				rt.Assert(err != nil, "write-to-read-only-volume-rejected")
				break
			}
			if old != nil && old.live && len(old.data) > 0 && old.cookie != n.Cookie {
				rt.Assert(err != nil, "write-with-different-cookie-rejected")
				break
			}
			if err == nil && unchanged && old != nil {
				// the volume recognised cookie + content as already stored and wrote nothing: the new upload's
				// metadata is then not what reads return
				same := rt.And(rt.And(old.lastMod == n.LastModified, old.gz == n.IsCompressed()), rt.And(old.hasName == hasName, rt.BytesEq(old.name, n.Name)))
				rt.Assert(same, "identical-content-upload-keeps-new-metadata@known:unchanged-upload-keeps-old-metadata")
				break
			}
			if err == nil {
				rt.Cover("written")
				nb := &verifRefBlob{id: id, live: true, cookie: n.Cookie, data: n.Data, name: n.Name, hasName: hasName, lastMod: n.LastModified, gz: n.IsCompressed()}
				if old != nil {
					*old = *nb
				} else {
					ref = append(ref, nb)
				}
			}
		case 1: // delete with the right cookie (the HTTP handler has verified it)
			old := find(id)
			n := &needle.Needle{Id: id}
			if old != nil {
				n.Cookie = old.cookie
			}
			var err error
			if v.noWriteOrDelete {
				err = ErrorNotFound
			} else {
				_, err = v.deleteNeedle2(n)
			}
			if readOnly {
				rt.Assert(err != nil, "delete-on-read-only-volume-rejected")
				break
			}
			if err == nil && old != nil {
				old.live = false
			}
		case 2: // the volume is marked read-only
			v.noWriteOrDelete = true
			readOnly = true
		case 3:
		}
		// every id reads back as the reference says
		for _, b := range ref {
			m := &needle.Needle{Id: b.id}
			_, err := v.readNeedle(m, nil)
			if !b.live {
				if len(b.data) == 0 {
					rt.Assert(err != nil, "deleted-blob-not-found@known:empty-blob-survives-delete")
				} else {
					rt.Assert(err != nil, "deleted-blob-not-found")
				}
				continue
			}
			rt.Cover("read-live")
			rt.Assert(err == nil, "live-blob-readable")
			rt.Assert(rt.BytesEq(m.Data, b.data), "read-returns-last-written-data")
			if len(b.data) == 0 {
				continue // metadata of empty blobs: known finding under C02
			}
			rt.Assert(m.Cookie == b.cookie, "read-returns-stored-cookie")
			rt.Assert(m.IsCompressed() == b.gz, "read-returns-compression-flag")
			rt.Assert(m.LastModified == b.lastMod, "read-returns-last-modified")
			rt.Assert(m.HasName() == b.hasName, "read-returns-name-flag")
			if b.hasName {
				rt.Assert(rt.BytesEq(m.Name, b.name), "read-returns-name")
			}
		}
		for _, id := range ids {
			if find(id) == nil {
				m := &needle.Needle{Id: id}
				_, err := v.readNeedle(m, nil)
				rt.Assert(err != nil, "never-written-id-not-found")
			}
		}
	}
}
