package needle_map

import (
	"bytes"
	"sort"

	"github.com/syndtr/goleveldb/leveldb"
	"github.com/syndtr/goleveldb/leveldb/iterator"
	"github.com/syndtr/goleveldb/leveldb/opt"
	"github.com/syndtr/goleveldb/leveldb/storage"
	leveldb_util "github.com/syndtr/goleveldb/leveldb/util"
)

// Under the engine the goleveldb handle is replaced by an ordered in-memory key/value list (the
// documented behaviour of DB.Put/Get/Delete/NewIterator over a key range); the store's own code -
// key layout, range start, prefix test, start/inclusive/limit handling - is the real code. At native
// replay a real goleveldb database in a temporary directory is used.
type verifKVPair struct {
	k, v []byte
}

// one ordered list per database handle
var verifKVs = map[*leveldb.DB][]verifKVPair{}

func verifKVFind(verifKV []verifKVPair, key []byte) int {
	return sort.Search(len(verifKV), func(i int) bool { return bytes.Compare(verifKV[i].k, key) >= 0 })
}

//verif:redirect (*github.com/syndtr/goleveldb/leveldb.DB).Put VerifDBPut
func VerifDBPut(db *leveldb.DB, key, value []byte, wo *opt.WriteOptions) error {
	verifKV := verifKVs[db]
	i := verifKVFind(verifKV, key)
	if i < len(verifKV) && bytes.Equal(verifKV[i].k, key) {
		verifKV[i].v = append([]byte(nil), value...)
		return nil
	}
	verifKV = append(verifKV, verifKVPair{})
	copy(verifKV[i+1:], verifKV[i:])
	verifKV[i] = verifKVPair{append([]byte(nil), key...), append([]byte(nil), value...)}
	verifKVs[db] = verifKV
	return nil
}

//verif:redirect (*github.com/syndtr/goleveldb/leveldb.DB).Get VerifDBGet
func VerifDBGet(db *leveldb.DB, key []byte, ro *opt.ReadOptions) ([]byte, error) {
	verifKV := verifKVs[db]
	i := verifKVFind(verifKV, key)
	if i < len(verifKV) && bytes.Equal(verifKV[i].k, key) {
		return append([]byte(nil), verifKV[i].v...), nil
	}
	return nil, leveldb.ErrNotFound
}

//verif:redirect (*github.com/syndtr/goleveldb/leveldb.DB).Delete VerifDBDelete
func VerifDBDelete(db *leveldb.DB, key []byte, wo *opt.WriteOptions) error {
	verifKV := verifKVs[db]
	i := verifKVFind(verifKV, key)
	if i < len(verifKV) && bytes.Equal(verifKV[i].k, key) {
		verifKVs[db] = append(verifKV[:i], verifKV[i+1:]...)
	}
	return nil
}

type verifIter struct {
	pairs []verifKVPair
	pos   int
}

func (it *verifIter) First() bool                       { it.pos = 0; return it.Valid() }
func (it *verifIter) Last() bool                        { it.pos = len(it.pairs) - 1; return it.Valid() }
func (it *verifIter) Next() bool                        { it.pos++; return it.Valid() }
func (it *verifIter) Prev() bool                        { it.pos--; return it.Valid() }
func (it *verifIter) Valid() bool                       { return it.pos >= 0 && it.pos < len(it.pairs) }
func (it *verifIter) Error() error                      { return nil }
func (it *verifIter) Key() []byte                       { return it.pairs[it.pos].k }
func (it *verifIter) Value() []byte                     { return it.pairs[it.pos].v }
func (it *verifIter) Release()                          {}
func (it *verifIter) SetReleaser(leveldb_util.Releaser) {}
func (it *verifIter) Seek(key []byte) bool {
	it.pos = sort.Search(len(it.pairs), func(i int) bool { return bytes.Compare(it.pairs[i].k, key) >= 0 })
	return it.Valid()
}

//verif:redirect (*github.com/syndtr/goleveldb/leveldb.DB).NewIterator VerifDBNewIterator
func VerifDBNewIterator(db *leveldb.DB, slice *leveldb_util.Range, ro *opt.ReadOptions) iterator.Iterator {
	it := &verifIter{pos: -1}
	for _, p := range verifKVs[db] {
		if slice != nil && slice.Start != nil && bytes.Compare(p.k, slice.Start) < 0 {
			continue
		}
		if slice != nil && slice.Limit != nil && bytes.Compare(p.k, slice.Limit) >= 0 {
			continue
		}
		it.pairs = append(it.pairs, p)
	}
	return it
}

// Opening an in-memory database yields a fresh handle.
//
//verif:redirect github.com/syndtr/goleveldb/leveldb.Open VerifDBOpen
func VerifDBOpen(stor storage.Storage, o *opt.Options) (*leveldb.DB, error) {
	return &leveldb.DB{}, nil
}

//verif:redirect (*github.com/syndtr/goleveldb/leveldb.DB).Close VerifDBClose
func VerifDBClose(db *leveldb.DB) error { delete(verifKVs, db); return nil }
