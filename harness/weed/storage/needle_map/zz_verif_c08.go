package needle_map

import (
	"github.com/chrislusf/seaweedfs/weed/storage/idx"
	"github.com/chrislusf/seaweedfs/weed/storage/types"
	rt "github.com/chrislusf/seaweedfs/weed/zzverifrt"
)

// C08: index entries (key, offset, size) round-trip through their 16/17-byte encoding, and an
// 8-byte-aligned file offset below the format's maximum volume size survives ToOffset/ToActualOffset.
func VerifC08_IdxEntry() {
	key := types.NeedleId(rt.U64("key"))
	actual := rt.I64("offset")
	rt.Assume(rt.And(actual >= 0, uint64(actual) < types.MaxPossibleVolumeSize))
	rt.Assume(actual%8 == 0)
	size := types.Size(rt.I32("size"))
	off := types.ToOffset(actual)
	rt.Assert(off.ToActualOffset() == actual, "offset-roundtrip")
	b := ToBytes(key, off, size)
	rt.Assert(len(b) == types.NeedleMapEntrySize, "entry-size")
	k2, o2, s2 := idx.IdxFileEntry(b)
	rt.Cover("decoded")
	rt.Assert(rt.And(k2 == key, s2 == size), "entry-key-size")
	rt.Assert(o2 == off, "entry-offset")
	rt.Assert(o2.ToActualOffset() == actual, "entry-actual-offset")
}
