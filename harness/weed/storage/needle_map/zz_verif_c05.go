package needle_map

import (
	. "github.com/chrislusf/seaweedfs/weed/storage/types"
	rt "github.com/chrislusf/seaweedfs/weed/zzverifrt"
)

type verifRef struct {
	key    NeedleId
	offset Offset
	size   Size
}

func verifFind(ref []verifRef, key NeedleId) int {
	for i := range ref {
		if ref[i].key == key {
			return i
		}
	}
	return -1
}

// verifOps runs k symbolic Set/Delete/Get operations against the map and an association-list reference.
func verifOps(cm *CompactMap, ref []verifRef, k int, keyOf func(i int) NeedleId) {
	for i := 0; i < k; i++ {
		key := keyOf(i)
		switch rt.Choice("op", 3) {
		case 0: // set
			off := ToOffset(int64(rt.U64("off")&(1<<40-1)) * 8)
			size := Size(rt.I32("size"))
			rt.Assume(size >= 1) // sizes of stored blobs; size 0 is covered under C01/C02
			oldOff, oldSize := cm.Set(key, off, size)
			j := verifFind(ref, key)
			if j >= 0 {
				rt.Assert(rt.And(oldOff == ref[j].offset, oldSize == ref[j].size), "set-returns-previous-entry")
				ref[j].offset, ref[j].size = off, size
			} else {
				rt.Assert(rt.And(oldOff.IsZero(), oldSize == 0), "set-returns-zero-for-new-key")
				ref = append(ref, verifRef{key, off, size})
			}
		case 1: // delete
			ret := cm.Delete(key)
			j := verifFind(ref, key)
			if j >= 0 && ref[j].size > 0 {
				rt.Assert(ret == ref[j].size, "delete-returns-removed-size")
				ref[j].size = -ref[j].size
			} else {
				rt.Assert(ret == 0, "delete-of-missing-or-deleted-returns-zero")
			}
		case 2: // get
		}
		// every key seen so far reads back as the reference says
		for j := range ref {
			nv, ok := cm.Get(ref[j].key)
			rt.Assert(ok, "get-finds-stored-key")
			if ok {
				rt.Assert(rt.And(nv.Key == ref[j].key, rt.And(nv.Offset == ref[j].offset, nv.Size == ref[j].size)), "get-returns-latest-entry")
			}
		}
		if verifFind(ref, key) < 0 {
			_, ok := cm.Get(key)
			rt.Assert(!ok, "get-of-unknown-key-misses")
		}
	}
	// ascending visit enumerates exactly the reference, in key order
	var prev NeedleId
	n := 0
	cm.AscendingVisit(func(nv NeedleValue) error {
		if n > 0 {
			rt.Assert(nv.Key > prev, "visit-ascending")
		}
		prev = nv.Key
		n++
		j := verifFind(ref, nv.Key)
		rt.Assert(j >= 0, "visit-only-stored-keys")
		if j >= 0 {
			rt.Assert(rt.And(nv.Offset == ref[j].offset, nv.Size == ref[j].size), "visit-latest-entry")
		}
		return nil
	})
	rt.Assert(n == len(ref), "visit-every-key-once")
}

// C05: the in-memory index agrees with an association list for arbitrary 64-bit keys
// (in order, out of order, far apart -> several sections).
func VerifC05_CompactMapSmall() {
	cm := NewCompactMap()
	rt.Cover("ran")
	verifOps(cm, nil, rt.Param("ops", 3), func(i int) NeedleId { return NeedleId(rt.U64("key")) })
}

// C05: the same after a prefix of 130 ascending keys, so that out-of-order keys take the overflow path
// (more than 128 entries back) or the look-back insertion; symbolic keys are confined to two windows.
func VerifC05_CompactMapOverflow() {
	cm := NewCompactMap()
	var ref []verifRef
	for i := 1; i <= 130; i++ {
		off := ToOffset(int64(i) * 8)
		cm.Set(NeedleId(1000+i*10), off, Size(i))
		ref = append(ref, verifRef{NeedleId(1000 + i*10), off, Size(i)})
	}
	rt.Cover("prefix")
	verifOps(cm, ref, rt.Param("ops", 2), func(i int) NeedleId {
		k := NeedleId(rt.U64("key"))
		if rt.Choice("window", 2) == 0 {
			rt.Assume(rt.And(k >= 1005, k <= 1032)) // before / among the first entries: overflow path
		} else {
			rt.Assume(rt.And(k >= 2285, k <= 2305)) // around the last entries: look-back insertion / append
		}
		return k
	})
}
