package storage

import (
	"os"

	. "github.com/chrislusf/seaweedfs/weed/storage/types"
	rt "github.com/chrislusf/seaweedfs/weed/zzverifrt"
)

// C05: the running counters of the in-memory needle map equal the counters obtained by replaying the
// index file it wrote, and both maps answer lookups identically (operations as the Volume issues them:
// tombstones only for live keys, offsets never zero).
func VerifC05_Counters() {
	dir := rt.TempDir()
	f, err := os.OpenFile(dir+"/c.idx", os.O_RDWR|os.O_CREATE|os.O_TRUNC, 0644)
	if err != nil {
		panic(err)
	}
	nm := NewCompactNeedleMap(f)
	var keys []NeedleId
	k := rt.Param("ops", 3)
	for i := 0; i < k; i++ {
		key := NeedleId(rt.U64("key"))
		rt.Assume(rt.And(key >= 1, key < 1<<20))
		off := ToOffset(int64(rt.U32("off")) * 8)
		rt.Assume(!off.IsZero())
		if rt.Choice("op", 2) == 0 {
			size := Size(rt.I32("size"))
			rt.Assume(size >= 1)
			rt.Assert(nm.Put(key, off, size) == nil, "put-ok")
		} else {
			nv, ok := nm.Get(key)
			if !(ok && nv.Size.IsValid()) {
				continue // the Volume never writes a tombstone for a key that is not live
			}
			rt.Assert(nm.Delete(key, off) == nil, "delete-ok")
		}
		known := false
		for _, x := range keys {
			if x == key {
				known = true
			}
		}
		if !known {
			keys = append(keys, key)
		}
	}
	f2, err := os.OpenFile(dir+"/c.idx", os.O_RDWR, 0644)
	if err != nil {
		panic(err)
	}
	nm2, lerr := LoadCompactNeedleMap(f2)
	rt.Cover("reloaded")
	rt.Assert(lerr == nil, "reload-ok")
	rt.Assert(nm2.FileCount() == nm.FileCount(), "file-count-agrees")
	rt.Assert(nm2.DeletedCount() == nm.DeletedCount(), "deleted-count-agrees")
	rt.Assert(nm2.ContentSize() == nm.ContentSize(), "content-size-agrees")
	rt.Assert(nm2.DeletedSize() == nm.DeletedSize(), "deleted-size-agrees")
	rt.Assert(nm2.MaxFileKey() == nm.MaxFileKey(), "max-file-key-agrees")
	for _, key := range keys {
		a, oka := nm.Get(key)
		b, okb := nm2.Get(key)
		rt.Assert(oka == okb, "lookup-presence-agrees")
		if oka && okb {
			rt.Assert(rt.And(a.Size == b.Size, rt.Or(a.Size < 0, a.Offset == b.Offset)), "lookup-entry-agrees")
		}
	}
}
