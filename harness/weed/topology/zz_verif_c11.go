package topology

import (
	"github.com/chrislusf/seaweedfs/weed/pb/master_pb"
	"github.com/chrislusf/seaweedfs/weed/sequence"
	"github.com/chrislusf/seaweedfs/weed/storage/needle"
	"github.com/chrislusf/seaweedfs/weed/storage/super_block"
	"github.com/chrislusf/seaweedfs/weed/storage/types"
	rt "github.com/chrislusf/seaweedfs/weed/zzverifrt"
)

// C11: after any history of heartbeats, disconnects and capacity-full scans the master lists a volume
// as writable only if every registered replica is writable, the replica count matches the replication
// setting (or exceeds it with replication-as-minimum) and every reported size is below the limit;
// lookups return exactly the registered servers.
func VerifC11_Writables() {
	const limit = 1000
	asMin := rt.Choice("replication-as-min", 2) == 1
	rpByte := []uint32{0, 1}[rt.Choice("replication", 2)] // 000 or 001
	copies := int(rpByte) + 1
	topo := NewTopology("topo", sequence.NewMemorySequencer(), limit, 5, asMin)
	dc := topo.GetOrCreateDataCenter("dc1")
	rack := dc.GetOrCreateRack("rack1")
	nNodes := rt.Param("nodes", 2)
	nodes := make([]*DataNode, nNodes)
	connected := make([]bool, nNodes)
	join := func(i int) {
		nodes[i] = rack.GetOrCreateDataNode("10.0.0.1", 8080+i, "", map[string]uint32{"": 10})
		connected[i] = true
	}
	for i := range nodes {
		join(i)
	}
	const vid = 1
	msg := func() *master_pb.VolumeInformationMessage {
		return &master_pb.VolumeInformationMessage{Id: vid, Size: rt.U64("size"), ReadOnly: rt.Bool("readonly"), ReplicaPlacement: rpByte, Version: uint32(needle.CurrentVersion)}
	}
	k := rt.Param("steps", 3)
	isOffered := func() bool {
		rp, _ := super_block.NewReplicaPlacementFromByte(byte(rpByte))
		for _, w := range topo.GetVolumeLayout("", rp, needle.EMPTY_TTL, types.HardDriveType).writables {
			if w == vid {
				return true
			}
		}
		return false
	}
	// fullWhenRegistered[i]: server i registered the volume (first report after not holding it) with a size
	// at or over the limit - the master remembers that as "oversized" for that server
	fullWhenRegistered := make([]bool, nNodes)
	holds := func(i int) bool {
		if nodes[i] == nil || !connected[i] {
			return false
		}
		_, err := nodes[i].GetVolumesById(vid)
		return err == nil
	}
	for step := 0; step < k; step++ {
		offeredBefore := isOffered()
		who := rt.Choice("node", nNodes)
		heldBefore := holds(who)
		switch rt.Choice("event", 4) {
		case 0: // full heartbeat
			if !connected[who] {
				join(who)
			}
			var vols []*master_pb.VolumeInformationMessage
			if rt.Choice("has-volume", 2) == 1 {
				vols = append(vols, msg())
			}
			topo.SyncDataNodeRegistration(vols, nodes[who])
			if len(vols) == 0 {
				fullWhenRegistered[who] = false
			} else if !heldBefore {
				fullWhenRegistered[who] = vols[0].Size >= limit
			}
		case 1: // incremental heartbeat: new volume
			if !connected[who] {
				join(who)
			}
			topo.IncrementalSyncDataNodeRegistration([]*master_pb.VolumeShortInformationMessage{{Id: vid, ReplicaPlacement: rpByte, Version: uint32(needle.CurrentVersion)}}, nil, nodes[who])
			if !heldBefore {
				fullWhenRegistered[who] = false
			}
		case 2: // incremental heartbeat: deleted volume
			if !connected[who] {
				join(who)
			}
			topo.IncrementalSyncDataNodeRegistration(nil, []*master_pb.VolumeShortInformationMessage{{Id: vid, ReplicaPlacement: rpByte, Version: uint32(needle.CurrentVersion)}}, nodes[who])
			fullWhenRegistered[who] = false
		case 3: // the server's connection drops
			if connected[who] {
				topo.UnRegisterDataNode(nodes[who])
				connected[who] = false
				fullWhenRegistered[who] = false
			}
		}
		// a replica that was registered as full and still reports a size at or over the limit never becomes
		// writable through a heartbeat (a volume that merely grows over the limit stays listed until the
		// periodic scan below - that window is how the master works and is not asserted)
		if !offeredBefore && isOffered() {
			for i, dn := range nodes {
				if connected[i] && fullWhenRegistered[i] {
					if v, err := dn.GetVolumesById(vid); err == nil {
						rt.Assert(v.Size < limit, "replica-registered-as-full-never-becomes-writable-by-a-heartbeat")
					}
				}
			}
		}
		// the periodic scan for full volumes (CollectDeadNodeAndFullVolumes -> SetVolumeCapacityFull)
		for i, dn := range nodes {
			if !connected[i] {
				continue
			}
			for _, v := range dn.GetVolumes() {
				if v.Size >= limit {
					topo.SetVolumeCapacityFull(v)
				}
			}
		}
		rt.Cover("step")
		// reference from the registered state
		registered := 0
		allWritable, allSmall := true, true
		var holders []*DataNode
		for i, dn := range nodes {
			if !connected[i] {
				continue
			}
			if v, err := dn.GetVolumesById(vid); err == nil {
				registered++
				holders = append(holders, dn)
				if v.ReadOnly {
					allWritable = false
				}
				if v.Size >= limit {
					allSmall = false
				}
			}
		}
		rp, _ := super_block.NewReplicaPlacementFromByte(byte(rpByte))
		vl := topo.GetVolumeLayout("", rp, needle.EMPTY_TTL, types.HardDriveType)
		offered := false
		for _, w := range vl.writables {
			if w == vid {
				offered = true
			}
		}
		if offered {
			rt.Cover("offered")
			rt.Assert(registered == copies || (asMin && registered > copies), "writable-only-with-the-right-replica-count")
			rt.Assert(allWritable, "writable-only-if-every-replica-is-writable")
			rt.Assert(allSmall, "writable-only-below-the-size-limit")
		}
		got := vl.Lookup(vid)
		rt.Assert(len(got) == len(holders), "lookup-returns-exactly-the-registered-servers")
		for _, h := range holders {
			n := 0
			for _, g := range got {
				if g == h {
					n++
				}
			}
			rt.Assert(n == 1, "lookup-lists-each-registered-server-once")
		}
	}
}
