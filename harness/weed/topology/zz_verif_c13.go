package topology

import (
	"errors"

	"github.com/chrislusf/raft"
	"github.com/chrislusf/seaweedfs/weed/pb/master_pb"
	"github.com/chrislusf/seaweedfs/weed/sequence"
	"github.com/chrislusf/seaweedfs/weed/storage/needle"
	rt "github.com/chrislusf/seaweedfs/weed/zzverifrt"
)

// Stand-in for the raft server: a single-member cluster whose Do either fails (not the leader, no quorum)
// or commits the command by applying it to the state machine context, the way chrislusf/raft does.
type verifRaft struct {
	raft.Server
	topo *Topology
}

func (r *verifRaft) Context() interface{} { return r.topo }
func (r *verifRaft) Do(c raft.Command) (interface{}, error) {
	if rt.Choice("raft-do", 2) == 1 {
		return nil, errors.New("raft: not current leader")
	}
	return c.(*MaxVolumeIdCommand).Apply(r)
}

// C13 (volume ids): every id returned by Topology.NextVolumeId is above every id handed out before, above
// every volume id a volume server has reported, and above every id a committed (possibly replayed, older)
// MaxVolumeId raft command carried; the topology's max volume id never decreases.
func VerifC13_VolumeIds() {
	topo := NewTopology("topo", sequence.NewMemorySequencer(), 1000, 5, false)
	r := &verifRaft{topo: topo}
	topo.RaftServer = r
	dc := topo.GetOrCreateDataCenter("dc1")
	rack := dc.GetOrCreateRack("rack1")
	dn := rack.GetOrCreateDataNode("10.0.0.1", 8080, "", map[string]uint32{"": 10})
	var known []needle.VolumeId // ids handed out, reported or committed so far
	k := rt.Param("ops", 3)
	for i := 0; i < k; i++ {
		before := topo.GetMaxVolumeId()
		switch rt.Choice("op", 4) {
		case 0: // the leader grows a volume
			vid, err := topo.NextVolumeId()
			if err == nil {
				rt.Cover("volume-id-assigned")
				for _, o := range known {
					rt.Assert(vid > o, "volume-id-fresh")
				}
				known = append(known, vid)
			}
		case 1: // a heartbeat reports a volume (created under an earlier leader, or restored)
			v := needle.VolumeId(rt.U32("reported"))
			rt.Assume(uint32(v) < 1<<31)
			topo.SyncDataNodeRegistration([]*master_pb.VolumeInformationMessage{{Id: uint32(v), Size: 1, Version: uint32(needle.CurrentVersion)}}, dn)
			known = append(known, v)
		case 2: // a committed command arrives through the raft log (replay, or entry of the previous leader)
			v := needle.VolumeId(rt.U32("logged"))
			rt.Assume(uint32(v) < 1<<31)
			NewMaxVolumeIdCommand(v).Apply(r)
			known = append(known, v)
		case 3: // a server of another rack joins, already holding volumes
			v := needle.VolumeId(rt.U32("joined"))
			rt.Assume(uint32(v) < 1<<31)
			rack2 := dc.GetOrCreateRack("rack2")
			dn2 := NewDataNode([]string{"10.0.0.2:8080", "10.0.0.3:8080", "10.0.0.4:8080", "10.0.0.5:8080", "10.0.0.6:8080"}[i%5])
			dn2.UpAdjustMaxVolumeId(v)
			rack2.LinkChildNode(dn2)
			known = append(known, v)
		}
		rt.Assert(topo.GetMaxVolumeId() >= before, "max-volume-id-monotone")
		for _, o := range known {
			rt.Assert(topo.GetMaxVolumeId() >= o, "max-volume-id-covers-known")
		}
	}
}
