package topology

import (
	"context"
	"errors"

	"google.golang.org/grpc"

	"github.com/chrislusf/seaweedfs/weed/operation"
	"github.com/chrislusf/seaweedfs/weed/pb/master_pb"
	"github.com/chrislusf/seaweedfs/weed/pb/volume_server_pb"
	"github.com/chrislusf/seaweedfs/weed/sequence"
	"github.com/chrislusf/seaweedfs/weed/storage/needle"
	rt "github.com/chrislusf/seaweedfs/weed/zzverifrt"
)

//verif:use github.com/chrislusf/seaweedfs/weed/operation

// One fake volume server per replica: the outcome of every vacuum RPC is drawn when it is called.
type verifVacuumServer struct {
	volume_server_pb.VolumeServerClient
	name                      string
	checked, compacted        bool
	compactOk                 bool
	committed, cleaned        bool
	commitWithoutGoodCompact  bool
	commitAfterCleanupOrTwice bool
}

var verifRpcErr = errors.New("verif: rpc failed")

func (s *verifVacuumServer) VacuumVolumeCheck(ctx context.Context, in *volume_server_pb.VacuumVolumeCheckRequest, opts ...grpc.CallOption) (*volume_server_pb.VacuumVolumeCheckResponse, error) {
	s.checked = true
	switch rt.Choice("check", 3) {
	case 0:
		return &volume_server_pb.VacuumVolumeCheckResponse{GarbageRatio: 0.5}, nil
	case 1:
		return &volume_server_pb.VacuumVolumeCheckResponse{GarbageRatio: 0.1}, nil
	}
	return nil, verifRpcErr
}

func (s *verifVacuumServer) VacuumVolumeCompact(ctx context.Context, in *volume_server_pb.VacuumVolumeCompactRequest, opts ...grpc.CallOption) (*volume_server_pb.VacuumVolumeCompactResponse, error) {
	s.compacted = true
	if rt.Bool("compact-ok") {
		s.compactOk = true
		return &volume_server_pb.VacuumVolumeCompactResponse{}, nil
	}
	return nil, verifRpcErr
}

func (s *verifVacuumServer) VacuumVolumeCommit(ctx context.Context, in *volume_server_pb.VacuumVolumeCommitRequest, opts ...grpc.CallOption) (*volume_server_pb.VacuumVolumeCommitResponse, error) {
	if !s.compactOk {
		s.commitWithoutGoodCompact = true
	}
	if s.committed || s.cleaned {
		s.commitAfterCleanupOrTwice = true
	}
	s.committed = true
	if rt.Bool("commit-ok") {
		return &volume_server_pb.VacuumVolumeCommitResponse{}, nil
	}
	return nil, verifRpcErr
}

func (s *verifVacuumServer) VacuumVolumeCleanup(ctx context.Context, in *volume_server_pb.VacuumVolumeCleanupRequest, opts ...grpc.CallOption) (*volume_server_pb.VacuumVolumeCleanupResponse, error) {
	s.cleaned = true
	return &volume_server_pb.VacuumVolumeCleanupResponse{}, nil
}

// C14: one vacuum round over a volume with 1..3 replicas, every per-replica outcome of check
// (garbage above / below the threshold / error), compact (ok / error) and commit (ok / error), and a
// time-out at any wait: commit is only sent to replicas whose compaction succeeded, and a round in
// which nothing was committed leaves the volume as writable as it was.
func VerifC14_VacuumRound() {
	const limit = 1000
	copies := 1 + rt.Choice("replicas", rt.Param("replicas", 2))
	rpByte := uint32(copies - 1) // 000, 001, 002
	topo := NewTopology("topo", sequence.NewMemorySequencer(), limit, 5, false)
	rack := topo.GetOrCreateDataCenter("dc1").GetOrCreateRack("rack1")
	servers := map[string]*verifVacuumServer{}
	full := rt.Bool("volume-is-full")
	size := uint64(10)
	if full {
		size = limit
	}
	for i := 0; i < copies; i++ {
		dn := rack.GetOrCreateDataNode("10.0.0.1", 8080+i, "", map[string]uint32{"": 10})
		topo.SyncDataNodeRegistration([]*master_pb.VolumeInformationMessage{{Id: 1, Size: size, ReplicaPlacement: rpByte, Version: uint32(needle.CurrentVersion)}}, dn)
		servers[dn.Url()] = &verifVacuumServer{name: dn.Url()}
		if full {
			for _, v := range dn.GetVolumes() {
				topo.SetVolumeCapacityFull(v)
			}
		}
	}
	operation.VhVolumeServerClientHook = func(volumeServer string, fn func(volume_server_pb.VolumeServerClient) error) error {
		s, ok := servers[volumeServer]
		if !ok {
			panic("verif: unknown volume server " + volumeServer)
		}
		return fn(s)
	}
	var vl *VolumeLayout
	var col *Collection
	for _, c := range topo.collectionMap.Items() {
		col = c.(*Collection)
		for _, l := range col.storageType2VolumeLayout.Items() {
			vl = l.(*VolumeLayout)
		}
	}
	isWritable := func() bool {
		for _, v := range vl.writables {
			if v == 1 {
				return true
			}
		}
		return false
	}
	before := isWritable()
	rt.Assert(before == !full, "harness-sanity-writable-before")

	topo.vacuumOneVolumeLayout(nil, vl, col, 0.3, 0)
	rt.Cover("round-done")

	anyCommit := false
	for _, s := range servers {
		rt.Assert(!s.commitWithoutGoodCompact, "commit-only-after-successful-compaction-on-that-replica")
		rt.Assert(!s.commitAfterCleanupOrTwice, "commit-at-most-once-and-never-after-cleanup")
		if s.committed {
			anyCommit = true
		}
	}
	after := isWritable()
	if !anyCommit {
		rt.Assert(after == before, "round-without-commit-leaves-writability-as-it-was")
	} else {
		rt.Assert(rt.Implies(after, !full), "a-full-volume-is-not-made-writable-by-vacuum")
	}
}
