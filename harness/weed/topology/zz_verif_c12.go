package topology

import (
	"github.com/chrislusf/seaweedfs/weed/storage"
	"github.com/chrislusf/seaweedfs/weed/storage/erasure_coding"
	"github.com/chrislusf/seaweedfs/weed/storage/needle"
	"github.com/chrislusf/seaweedfs/weed/storage/types"
	rt "github.com/chrislusf/seaweedfs/weed/zzverifrt"
)

var verifDiskTypes = []string{"", "ssd"}

type verifCounts struct{ vol, remote, ec, max int64 }

// verifRecount recomputes the counts of a data node from the volumes / shards registered on its disks
// and the last max counts it reported.
func verifRecount(dn *DataNode, maxes map[string]int64) map[types.DiskType]*verifCounts {
	res := map[types.DiskType]*verifCounts{types.HardDriveType: {}, types.SsdType: {}}
	for _, c := range dn.children {
		d := c.(*Disk)
		for _, v := range d.volumes {
			r := res[types.ToDiskType(v.DiskType)]
			r.vol++
			if v.IsRemote() {
				r.remote++
			}
		}
		for _, s := range d.ecShards {
			res[types.ToDiskType(s.DiskType)].ec += int64(s.ShardIdCount())
		}
	}
	for dt, m := range maxes {
		res[types.ToDiskType(dt)].max = m
	}
	return res
}

func verifCheckNode(n *NodeImpl, want map[types.DiskType]*verifCounts, where string) {
	for _, dt := range []types.DiskType{types.HardDriveType, types.SsdType} {
		got := n.diskUsages.getOrCreateDisk(dt)
		w := want[dt]
		rt.Assert(got.volumeCount == w.vol, where+"-volume-count")
		rt.Assert(got.remoteVolumeCount == w.remote, where+"-remote-volume-count")
		rt.Assert(got.ecShardCount == w.ec, where+"-ec-shard-count")
		rt.Assert(got.maxVolumeCount == w.max, where+"-max-volume-count")
	}
}

func verifVolumeInfo(vid int) storage.VolumeInfo {
	v := storage.VolumeInfo{Id: needle.VolumeId(vid), Size: rt.U64("size"), ReadOnly: rt.Bool("readonly")}
	v.DiskType = verifDiskTypes[rt.Choice("disktype", 2)]
	if rt.Choice("remote", 2) == 1 {
		v.RemoteStorageName = "s3"
	}
	return v
}

// C12: after any history of heartbeats the counts at disk-usage level of every node, the rack and the
// data center equal the counts recomputed from what is registered beneath them.
func VerifC12_Accounting() {
	dc := NewDataCenter("dc")
	rack := NewRack("r")
	dc.LinkChildNode(rack)
	nodes := []*DataNode{NewDataNode("n0"), NewDataNode("n1")}
	linked := []bool{true, true}
	maxes := []map[string]int64{{}, {}}
	for _, n := range nodes {
		rack.LinkChildNode(n)
	}
	k := rt.Param("steps", 2)
	nvid := rt.Param("vids", 2)
	for step := 0; step < k; step++ {
		who := rt.Choice("node", 2)
		dn := nodes[who]
		switch rt.Choice("op", 6) {
		case 0: // full volume heartbeat
			var list []storage.VolumeInfo
			for vid := 1; vid <= nvid; vid++ {
				if rt.Choice("present", 2) == 1 {
					list = append(list, verifVolumeInfo(vid))
				}
			}
			dn.UpdateVolumes(list)
		case 1: // incremental volume heartbeat: one new or one deleted volume
			vid := rt.Choice("vid", nvid) + 1
			if rt.Choice("delta", 2) == 0 {
				dn.DeltaUpdateVolumes([]storage.VolumeInfo{verifVolumeInfo(vid)}, nil)
			} else {
				// a deletion names a volume the node registered (stale deletions: thorough tier, triaged)
				old, err := dn.GetVolumesById(needle.VolumeId(vid))
				if err != nil {
					if rt.Param("staledelete", 0) == 0 {
						continue
					}
					old = verifVolumeInfo(vid)
				}
				dn.DeltaUpdateVolumes(nil, []storage.VolumeInfo{old})
			}
		case 2: // max volume counts
			m := map[string]uint32{}
			for _, dt := range verifDiskTypes {
				if rt.Choice("reports-max", 2) == 1 {
					c := rt.U32("max")
					rt.Assume(rt.And(c >= 1, c < 1000))
					m[dt] = c
					maxes[who][dt] = int64(c)
				}
			}
			dn.AdjustMaxVolumeCounts(m)
		case 3: // full EC heartbeat
			var list []*erasure_coding.EcVolumeInfo
			for vid := 1; vid <= nvid; vid++ {
				if rt.Choice("ec-present", 2) == 1 {
					bits := rt.U32("shardbits")
					rt.Assume(rt.And(bits >= 1, bits < 1<<uint(rt.Param("shardbits", 3))))
					// an EC volume's shards on one server live on one disk type (a volume changing disk type between
					// heartbeats is outside the claim)
					list = append(list, erasure_coding.NewEcVolumeInfo(verifDiskTypes[vid%2], "", needle.VolumeId(10+vid), erasure_coding.ShardBits(bits)))
				}
			}
			dn.UpdateEcShards(list)
		case 4: // incremental EC heartbeat
			bits := rt.U32("shardbits")
			rt.Assume(rt.And(bits >= 1, bits < 1<<uint(rt.Param("shardbits", 3))))
			ecvid := 1 + rt.Choice("ecvid", nvid)
			s := erasure_coding.NewEcVolumeInfo(verifDiskTypes[ecvid%2], "", needle.VolumeId(10+ecvid), erasure_coding.ShardBits(bits))
			if rt.Choice("ecdelta", 2) == 0 {
				dn.DeltaUpdateEcShards([]*erasure_coding.EcVolumeInfo{s}, nil)
			} else {
				dn.DeltaUpdateEcShards(nil, []*erasure_coding.EcVolumeInfo{s})
			}
		case 5: // the server goes away
			if linked[who] {
				rack.UnlinkChildNode(dn.Id())
				linked[who] = false
			}
		}
		rt.Cover("step")
		total := map[types.DiskType]*verifCounts{types.HardDriveType: {}, types.SsdType: {}}
		for i, n := range nodes {
			want := verifRecount(n, maxes[i])
			verifCheckNode(&n.NodeImpl, want, "node")
			if linked[i] {
				for dt, w := range want {
					t := total[dt]
					t.vol, t.remote, t.ec, t.max = t.vol+w.vol, t.remote+w.remote, t.ec+w.ec, t.max+w.max
				}
			}
		}
		verifCheckNode(&rack.NodeImpl, total, "rack")
		verifCheckNode(&dc.NodeImpl, total, "datacenter")
	}
}
