package topology

import (
	"github.com/chrislusf/seaweedfs/weed/sequence"
	"github.com/chrislusf/seaweedfs/weed/storage/super_block"
	"github.com/chrislusf/seaweedfs/weed/storage/types"
	rt "github.com/chrislusf/seaweedfs/weed/zzverifrt"
)

// C10: a successful placement uses exactly 1+x+y+z distinct servers with a free slot: z+1 in one rack,
// y in y other racks of the same data center, x in x other data centers; preferences are honoured.
func VerifC10_Placement() {
	nDC, nRack, nNode := rt.Param("dcs", 2), rt.Param("racks", 2), rt.Param("nodes", 2)
	maxFree := rt.Param("maxfree", 2)
	maxDigit := rt.Param("maxdigit", 1)
	topo := NewTopology("topo", sequence.NewMemorySequencer(), 1000, 5, false)
	type place struct{ dc, rack int }
	where := map[*DataNode]place{}
	var all []*DataNode
	for d := 0; d < nDC; d++ {
		dc := topo.GetOrCreateDataCenter("dc" + string(rune('0'+d)))
		for r := 0; r < nRack; r++ {
			rack := dc.GetOrCreateRack("r" + string(rune('0'+d)) + string(rune('0'+r)))
			for n := 0; n < nNode; n++ {
				dn := rack.GetOrCreateDataNode("10.0."+string(rune('0'+d))+"."+string(rune('0'+r)), 8080+n, "", nil)
				// free slots of this server for the hard drive type: max - volumes (- EC shard share)
				max := rt.U8("max")
				vols := rt.U8("volumes")
				rt.Assume(rt.And(uint8(maxFree) >= max, vols <= max))
				delta := newDiskUsages()
				u := delta.getOrCreateDisk(types.HardDriveType)
				u.maxVolumeCount, u.volumeCount = int64(max), int64(vols)
				if d == 0 && r == 0 && n == 0 {
					ec := rt.U8("ecshards")
					rt.Assume(ec <= 25)
					u.ecShardCount = int64(ec)
				}
				dn.UpAdjustDiskUsageDelta(delta)
				where[dn] = place{d, r}
				all = append(all, dn)
			}
		}
	}
	x, y, z := rt.Len("x", 0, maxDigit), rt.Len("y", 0, maxDigit), rt.Len("z", 0, maxDigit)
	option := &VolumeGrowOption{ReplicaPlacement: &super_block.ReplicaPlacement{DiffDataCenterCount: x, DiffRackCount: y, SameRackCount: z}, DiskType: types.HardDriveType}
	switch rt.Choice("preference", 3) {
	case 1:
		option.DataCenter = "dc0"
	case 2:
		option.DataCenter, option.Rack = "dc0", "r00"
	}
	free := map[*DataNode]int64{}
	for _, dn := range all {
		free[dn] = dn.AvailableSpaceFor(option)
	}
	vg := NewDefaultVolumeGrowth()
	servers, err := vg.findEmptySlotsForOneVolume(topo, option)
	rt.Cover("searched")
	if err != nil {
		rt.Cover("refused")
		return
	}
	rt.Cover("placed")
	rt.Assert(len(servers) == 1+x+y+z, "exactly-1+x+y+z-servers")
	hadSlot, distinct := true, true
	for i, s := range servers {
		hadSlot = rt.And(hadSlot, free[s] >= 1)
		for j := 0; j < i; j++ {
			distinct = rt.And(distinct, servers[j] != s)
		}
	}
	rt.Assert(hadSlot, "every-server-had-a-free-slot")
	rt.Assert(distinct, "servers-distinct")
	// group by data center and rack
	perDC := map[int]int{}
	perRack := map[place]int{}
	for _, s := range servers {
		p := where[s]
		perDC[p.dc]++
		perRack[p]++
	}
	mainDC := where[servers[0]].dc
	mainRack := where[servers[0]]
	rt.Assert(len(perDC) == x+1, "x-other-data-centers")
	rt.Assert(perDC[mainDC] == 1+y+z, "main-data-center-holds-1+y+z")
	oneEach := true
	for dcIdx, n := range perDC {
		if dcIdx != mainDC {
			oneEach = oneEach && n == 1
		}
	}
	rt.Assert(oneEach, "one-server-per-other-data-center")
	rt.Assert(perRack[mainRack] == z+1, "main-rack-holds-z+1")
	racksInMain := 0
	oneEach = true
	for p, n := range perRack {
		if p.dc == mainDC {
			racksInMain++
			if p != mainRack {
				oneEach = oneEach && n == 1
			}
		}
	}
	rt.Assert(oneEach, "one-server-per-other-rack")
	rt.Assert(racksInMain == y+1, "y-other-racks-in-main-data-center")
	if option.DataCenter != "" {
		rt.Assert(mainDC == 0, "preferred-data-center-honoured")
	}
	if option.Rack != "" {
		rt.Assert(mainRack == place{0, 0}, "preferred-rack-honoured")
	}
}
