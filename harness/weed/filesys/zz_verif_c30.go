package filesys

import (
	rt "github.com/chrislusf/seaweedfs/weed/zzverifrt"
)

const verifFileSpan = 16

// C30: the in-memory write buffer behaves like a byte array: after any sequence of writes (overlapping,
// adjacent, out of order) a read returns the last written byte at every covered position, the reported
// end is the end of the covered part of the window, and the interval lists stay disjoint.
func VerifC30_Intervals() {
	c := &ContinuousIntervals{}
	var model [verifFileSpan]byte
	var written [verifFileSpan]bool
	k := rt.Param("writes", 3)
	for w := 0; w < k; w++ {
		n := rt.Len("len", 1, rt.Param("maxlen", 3))
		off := int64(rt.U8("offset"))
		rt.Assume(off+int64(n) <= verifFileSpan)
		data := rt.Bytes("data", n)
		c.AddInterval(data, off)
		for j := 0; j < n; j++ {
			model[off+int64(j)] = data[j]
			written[off+int64(j)] = true
		}
	}
	rt.Cover("written")
	// structure: lists are non-empty, internally contiguous and pairwise disjoint; total size = covered bytes
	covered := int64(0)
	for p := 0; p < verifFileSpan; p++ {
		if written[p] {
			covered++
		}
	}
	rt.Assert(c.TotalSize() == covered, "total-size-equals-covered-bytes")
	for i, l := range c.lists {
		for j := 0; j < i; j++ {
			o := c.lists[j]
			rt.Assert(rt.Or(l.Offset()+l.Size() <= o.Offset(), o.Offset()+o.Size() <= l.Offset()), "lists-disjoint")
		}
	}
	// read window
	length := rt.Len("readlen", 1, rt.Param("readlen", 4))
	start := int64(rt.U8("readstart"))
	rt.Assume(start+int64(length) <= verifFileSpan)
	buf := make([]byte, length)
	maxStop := c.ReadDataAt(buf, start)
	rt.Cover("read")
	wantStop := int64(0)
	for i := 0; i < length; i++ {
		p := start + int64(i)
		if written[p] {
			rt.Assert(buf[i] == model[p], "read-returns-last-written-byte")
			wantStop = p + 1
		} else {
			rt.Assert(buf[i] == 0, "unwritten-bytes-untouched")
		}
	}
	rt.Assert(maxStop == wantStop, "max-stop-is-end-of-covered-window")
}

// C30 (inductive step): from an arbitrary valid buffer state (one or two interval lists, each made of one
// or two adjacent nodes, lists separated by a gap) one more write of any position and length keeps the
// byte-array semantics. This reaches joins onto multi-node lists that short histories do not.
func VerifC30_IntervalStep() {
	c := &ContinuousIntervals{}
	var model [verifFileSpan]byte
	var written [verifFileSpan]bool
	nLists := rt.Len("lists", 1, 2)
	pos := int64(rt.Len("first-offset", 0, 1)) // the existing lists have concrete positions; the new write is symbolic
	for l := 0; l < nLists; l++ {
		nNodes := rt.Len("nodes", 1, 2)
		list := &IntervalLinkedList{}
		for k := 0; k < nNodes; k++ {
			n := rt.Len("nodelen", 1, 2)
			data := rt.Bytes("nodedata", n)
			node := &IntervalNode{Data: data, Offset: pos, Size: int64(n)}
			if list.Head == nil {
				list.Head, list.Tail = node, node
			} else {
				list.Tail.Next = node
				list.Tail = node
			}
			for j := 0; j < n; j++ {
				model[pos+int64(j)] = data[j]
				written[pos+int64(j)] = true
			}
			pos += int64(n)
		}
		c.lists = append(c.lists, list)
		pos += int64(rt.Len("gap", 1, 2)) // adjacent lists would have been joined
	}
	// one more write
	n := rt.Len("len", 1, rt.Param("maxlen", 3))
	off := int64(rt.U8("offset"))
	rt.Assume(off+int64(n) <= verifFileSpan)
	data := rt.Bytes("data", n)
	c.AddInterval(data, off)
	for j := 0; j < n; j++ {
		model[off+int64(j)] = data[j]
		written[off+int64(j)] = true
	}
	rt.Cover("stepped")
	covered := int64(0)
	for p := 0; p < verifFileSpan; p++ {
		if written[p] {
			covered++
		}
	}
	rt.Assert(c.TotalSize() == covered, "total-size-equals-covered-bytes")
	buf := make([]byte, verifFileSpan)
	maxStop := c.ReadDataAt(buf, 0)
	wantStop := int64(0)
	ok := true
	for p := 0; p < verifFileSpan; p++ {
		if written[p] {
			ok = rt.And(ok, buf[p] == model[p])
			wantStop = int64(p) + 1
		} else {
			ok = rt.And(ok, buf[p] == 0)
		}
	}
	rt.Assert(ok, "read-returns-last-written-bytes")
	rt.Assert(maxStop == wantStop, "max-stop-is-end-of-covered-window")
}
