package filesys

import (
	rt "github.com/chrislusf/seaweedfs/weed/zzverifrt"
)

const verifFileSpan = 16

// C30: the in-memory write buffer behaves like a byte array: after any sequence of writes (overlapping,
// adjacent, out of order) a read returns the last written byte at every covered position, the reported
// end is the end of the covered part of the window, and the interval lists stay disjoint.
func VerifC30_Intervals() {
	c := &ContinuousIntervals{}
	var model [verifFileSpan]byte
	var written [verifFileSpan]bool
	k := rt.Param("writes", 3)
	for w := 0; w < k; w++ {
		n := rt.Len("len", 1, rt.Param("maxlen", 3))
		off := int64(rt.U8("offset"))
		rt.Assume(off+int64(n) <= verifFileSpan)
		data := rt.Bytes("data", n)
		c.AddInterval(data, off)
		for j := 0; j < n; j++ {
			model[off+int64(j)] = data[j]
			written[off+int64(j)] = true
		}
	}
	rt.Cover("written")
	// structure: lists are non-empty, internally contiguous and pairwise disjoint; total size = covered bytes
	covered := int64(0)
	for p := 0; p < verifFileSpan; p++ {
		if written[p] {
			covered++
		}
	}
	rt.Assert(c.TotalSize() == covered, "total-size-equals-covered-bytes")
	for i, l := range c.lists {
		for j := 0; j < i; j++ {
			o := c.lists[j]
			rt.Assert(rt.Or(l.Offset()+l.Size() <= o.Offset(), o.Offset()+o.Size() <= l.Offset()), "lists-disjoint")
		}
	}
	// read window
	length := rt.Len("readlen", 1, rt.Param("readlen", 4))
	start := int64(rt.U8("readstart"))
	rt.Assume(start+int64(length) <= verifFileSpan)
	buf := make([]byte, length)
	maxStop := c.ReadDataAt(buf, start)
	rt.Cover("read")
	wantStop := int64(0)
	for i := 0; i < length; i++ {
		p := start + int64(i)
		if written[p] {
			rt.Assert(buf[i] == model[p], "read-returns-last-written-byte")
			wantStop = p + 1
		} else {
			rt.Assert(buf[i] == 0, "unwritten-bytes-untouched")
		}
	}
	rt.Assert(maxStop == wantStop, "max-stop-is-end-of-covered-window")
}
