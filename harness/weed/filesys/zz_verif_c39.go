package filesys

import (
	"context"

	"github.com/seaweedfs/fuse"

	"github.com/chrislusf/seaweedfs/weed/util"
	rt "github.com/chrislusf/seaweedfs/weed/zzverifrt"
)

type verifNode struct{ id int }

func (n *verifNode) Attr(ctx context.Context, attr *fuse.Attr) error { return nil }

// verifName: one arbitrary byte out of {'a','b'}.
func verifName(tag string) string {
	s := rt.Str(tag, 1)
	rt.Assume(rt.Or(s[0] == 'a', s[0] == 'b'))
	return s
}

func verifCachePath(tag string) string {
	p := "/" + verifName(tag)
	if rt.Choice(tag+"-depth", 2) == 1 {
		p += "/" + verifName(tag)
	}
	return p
}

func verifIsUnder(q, p string) bool {
	if len(q) == len(p) {
		return q == p
	}
	if len(q) > len(p) {
		return rt.And(q[:len(p)] == p, q[len(p)] == '/')
	}
	return false
}

var verifUniverse = []string{"/a", "/b", "/a/a", "/a/b", "/b/a", "/b/b"}

type verifEnt struct {
	path string
	id   int // -1: the path exists only as an intermediate directory (no node attached)
}

func verifHas(ref []verifEnt, p string) bool {
	for _, e := range ref {
		if e.path == p {
			return true
		}
	}
	return false
}

// verifEnsureParents adds the ancestors of p (depth <= 2: at most "/x") as intermediate directories.
func verifEnsureParents(ref []verifEnt, p string) []verifEnt {
	for n := 2; n < len(p); n += 2 { // names are one byte: "/x", "/x/y", ...
		parent := p[:n]
		if !verifHas(ref, parent) {
			ref = append(ref, verifEnt{parent, -1})
		}
	}
	return ref
}

// C39: after any sequence of set / delete / move the node cache returns for every path exactly the node
// a reference tree gives it (intermediate path components exist as directories without a node; a move
// re-roots the subtree and replaces the target).
func VerifC39_FsCache() {
	c := newFsCache(&verifNode{0})
	var ref []verifEnt
	nextId := 1
	k := rt.Param("ops", 2)
	for step := 0; step < k; step++ {
		switch rt.Choice("op", 3) {
		case 0:
			p := verifCachePath("p")
			n := &verifNode{nextId}
			c.SetFsNode(util.FullPath(p), n)
			var kept []verifEnt
			for _, e := range ref {
				if e.path != p {
					kept = append(kept, e)
				}
			}
			ref = verifEnsureParents(append(kept, verifEnt{p, nextId}), p)
			nextId++
		case 1:
			p := verifCachePath("p")
			c.DeleteFsNode(util.FullPath(p))
			var kept []verifEnt
			for _, e := range ref {
				if !verifIsUnder(e.path, p) {
					kept = append(kept, e)
				}
			}
			ref = kept
		case 2:
			from, to := verifCachePath("from"), verifCachePath("to")
			exists := verifHas(ref, from)
			c.Move(util.FullPath(from), util.FullPath(to))
			if exists {
				var moved []verifEnt
				for _, e := range ref {
					if verifIsUnder(e.path, from) {
						moved = append(moved, verifEnt{to + e.path[len(from):], e.id})
					} else if !verifIsUnder(e.path, to) {
						moved = append(moved, e)
					}
				}
				ref = verifEnsureParents(moved, to)
			}
		}
		rt.Cover("step")
		for _, q := range verifUniverse {
			want := -1
			for _, e := range ref {
				if e.path == q {
					want = e.id
				}
			}
			got := -1
			if n := c.GetFsNode(util.FullPath(q)); n != nil {
				got = n.(*verifNode).id
			}
			rt.Assert(got == want, "cache-agrees-with-reference")
		}
	}
}
