package log_buffer

import (
	"encoding/binary"
	"time"

	"github.com/chrislusf/seaweedfs/weed/pb/filer_pb"
	"github.com/chrislusf/seaweedfs/weed/util"
	rt "github.com/chrislusf/seaweedfs/weed/zzverifrt"
	"github.com/golang/protobuf/proto"
)

// Under the engine the protobuf encoding of a LogEntry is a fixed layout (8 bytes timestamp, 4 bytes
// key hash, then the data); the buffer's own framing (4 byte size prefix, index, positions) is the
// real code. At native replay the real protobuf codec runs.
//
//verif:redirect github.com/golang/protobuf/proto.Marshal verifProtoMarshal
func verifProtoMarshal(m proto.Message) ([]byte, error) {
	e, ok := m.(*filer_pb.LogEntry)
	if !ok {
		panic("verif: proto.Marshal model only covers filer_pb.LogEntry")
	}
	b := make([]byte, 12+len(e.Data))
	binary.BigEndian.PutUint64(b, uint64(e.TsNs))
	binary.BigEndian.PutUint32(b[8:], uint32(e.PartitionKeyHash))
	copy(b[12:], e.Data)
	return b, nil
}

//verif:redirect github.com/golang/protobuf/proto.Unmarshal verifProtoUnmarshal
func verifProtoUnmarshal(b []byte, m proto.Message) error {
	e, ok := m.(*filer_pb.LogEntry)
	if !ok {
		panic("verif: proto.Unmarshal model only covers filer_pb.LogEntry")
	}
	if len(b) == 0 {
		return nil
	}
	e.TsNs = int64(binary.BigEndian.Uint64(b))
	e.PartitionKeyHash = int32(binary.BigEndian.Uint32(b[8:]))
	e.Data = b[12:]
	return nil
}

const verifC22Base = int64(1600000000) * 1000000000 // an instant in 2020, in ns

type verifC22 struct {
	lb      *LogBuffer
	flushed [][]int64 // timestamps of every flushed buffer ("disk")
	added   []int64   // timestamps the buffer assigned to appended events
}

func verifC22New(bufSize int) *verifC22 {
	v := &verifC22{}
	sealed := &SealedBuffers{}
	for i := 0; i < PreviousBufferCount; i++ {
		sealed.buffers = append(sealed.buffers, &MemBuffer{buf: make([]byte, bufSize)})
	}
	v.lb = &LogBuffer{
		name:          "verif",
		prevBuffers:   sealed,
		buf:           make([]byte, bufSize),
		sizeBuf:       make([]byte, 4),
		flushInterval: time.Minute,
		flushChan:     make(chan *dataToFlush, 16),
	}
	v.lb.flushFn = func(startTime, stopTime time.Time, buf []byte) {
		var tss []int64
		for pos := 0; pos+4 <= len(buf); {
			size, ts := readTs(buf, pos)
			tss = append(tss, ts)
			pos += size + 4
		}
		v.flushed = append(v.flushed, tss)
	}
	return v
}

// evictedUnflushed: the event is neither in the current or a sealed buffer nor in a flushed one.
func (v *verifC22) evictedUnflushed(ts int64) bool {
	has := func(buf []byte, size int) bool {
		for pos := 0; pos+4 <= size; {
			n, t := readTs(buf, pos)
			if t == ts {
				return true
			}
			pos += n + 4
		}
		return false
	}
	if has(v.lb.buf, v.lb.pos) {
		return false
	}
	for _, b := range v.lb.prevBuffers.buffers {
		if has(b.buf, b.size) {
			return false
		}
	}
	for _, tss := range v.flushed {
		for _, t := range tss {
			if t == ts {
				return false
			}
		}
	}
	return true
}

// runFlusher does what loopFlush does for the buffers queued so far.
func (v *verifC22) runFlusher() {
	for {
		select {
		case d := <-v.lb.flushChan:
			if d != nil {
				v.lb.flushFn(d.startTime, d.stopTime, d.data.Bytes())
				d.releaseMemory()
				v.lb.lastFlushTime = d.stopTime
			}
		default:
			return
		}
	}
}

// C22 (sequential schedules): k events are appended with arbitrary timestamps (repeated and
// decreasing ones included), the buffer rotates when full, the flusher runs at arbitrary points, and
// a subscriber starting from an arbitrary instant - reading the flushed data first when the buffer
// says so, as the filer's subscription loop does - receives every event later than its start exactly
// once, in increasing timestamp order.
func VerifC22_Subscribe() {
	k := rt.Param("events", 4)
	// buffers sized to hold exactly `perbuf` events, whatever the encoding in use makes of one event
	sample, _ := proto.Marshal(&filer_pb.LogEntry{TsNs: verifC22Base + 1, PartitionKeyHash: util.HashToInt32([]byte("k")), Data: []byte{'a'}})
	entry := len(sample) + 4
	v := verifC22New(rt.Param("perbuf", 2)*entry + entry - 1)
	for i := 0; i < k; i++ {
		ts := verifC22Base + int64(rt.U8("ts"))
		v.lb.AddToBuffer([]byte("k"), []byte{byte('a' + i)}, ts)
		v.added = append(v.added, v.lb.lastTsNs)
		if rt.Bool("flusher") {
			v.runFlusher()
		}
	}
	for i := 1; i < len(v.added); i++ {
		rt.Assert(v.added[i] > v.added[i-1], "assigned-timestamps-strictly-increase")
	}
	start := verifC22Base + int64(rt.U8("start")) - 1
	var got []int64
	last := time.Unix(0, start)
	for round := 0; round < 4; round++ {
		var err error
		last, err = v.lb.LoopProcessLogData("r", last, func() bool { return false }, func(e *filer_pb.LogEntry) error {
			got = append(got, e.TsNs)
			return nil
		})
		if err != ResumeFromDiskError {
			rt.Assert(err == nil, "reading-succeeds")
			break
		}
		// the subscription loop replays the persisted log from the last position, then resumes
		progressed := false
		for _, tss := range v.flushed {
			for _, ts := range tss {
				if ts > last.UnixNano() {
					got = append(got, ts)
					last = time.Unix(0, ts)
					progressed = true
				}
			}
		}
		rt.Assert(progressed, "resume-from-disk-finds-newer-flushed-data")
	}
	rt.Cover("read")
	// what must have been seen: every event later than start that is still in memory or on "disk"
	for i := 1; i < len(got); i++ {
		rt.Assert(got[i] > got[i-1], "events-arrive-once-and-in-order")
	}
	gi := 0
	for _, ts := range v.added {
		if ts <= start {
			continue
		}
		for gi < len(got) && got[gi] < ts {
			gi++
		}
		if gi < len(got) && got[gi] == ts {
			continue
		}
		if v.evictedUnflushed(ts) {
			// rotated out of the three sealed buffers before the flusher got to it: neither in memory nor
			// announced as flushed
			rt.Assert(false, "no-later-event-is-missed@known:log-buffer-evicts-unflushed-data")
		} else {
			rt.Assert(false, "no-later-event-is-missed")
		}
	}
	for _, ts := range got {
		rt.Assert(ts > start, "no-earlier-event-is-replayed")
	}
}
