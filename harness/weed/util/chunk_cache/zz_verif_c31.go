package chunk_cache

import (
	"os"

	"github.com/chrislusf/seaweedfs/weed/storage"
	"github.com/chrislusf/seaweedfs/weed/storage/backend"
	"github.com/chrislusf/seaweedfs/weed/storage/types"
	rt "github.com/chrislusf/seaweedfs/weed/zzverifrt"
)

// the in-memory tier (ccache: goroutines, timers) is replaced by a plain map keyed by file id
var verifMem map[string][]byte

//verif:redirect (*github.com/chrislusf/seaweedfs/weed/util/chunk_cache.ChunkCacheInMemory).GetChunk verifMemGet
func verifMemGet(c *ChunkCacheInMemory, fileId string) []byte { return verifMem[fileId] }

//verif:redirect (*github.com/chrislusf/seaweedfs/weed/util/chunk_cache.ChunkCacheInMemory).getChunkSlice verifMemGetSlice
func verifMemGetSlice(c *ChunkCacheInMemory, fileId string, offset, length uint64) ([]byte, error) {
	data, ok := verifMem[fileId]
	if !ok {
		return nil, nil
	}
	wanted := min(int(length), len(data)-int(offset))
	if wanted < 0 {
		return nil, ErrorOutOfBounds
	}
	return data[offset : int(offset)+wanted], nil
}

//verif:redirect (*github.com/chrislusf/seaweedfs/weed/util/chunk_cache.ChunkCacheInMemory).SetChunk verifMemSet
func verifMemSet(c *ChunkCacheInMemory, fileId string, data []byte) {
	verifMem[fileId] = append([]byte{}, data...)
}

//verif:redirect github.com/chrislusf/seaweedfs/weed/util/chunk_cache.NewChunkCacheInMemory verifNewMem
func verifNewMem(maxEntries int64) *ChunkCacheInMemory { return &ChunkCacheInMemory{} }

var verifVolSeq int

// cache volumes: the loader with the in-memory needle map instead of the LevelDB one; like the real
// loader it keeps what the .dat and .idx files already hold (a reset volume is reopened by name)
//verif:redirect github.com/chrislusf/seaweedfs/weed/util/chunk_cache.LoadOrCreateChunkCacheVolume verifNewCacheVolume
func verifNewCacheVolume(fileName string, preallocate int64) (*ChunkCacheVolume, error) {
	verifVolSeq++
	dat, err := os.OpenFile(fileName+".dat", os.O_RDWR|os.O_CREATE, 0644)
	if err != nil {
		return nil, err
	}
	st, err := dat.Stat()
	if err != nil {
		return nil, err
	}
	idx, err := os.OpenFile(fileName+".idx", os.O_RDWR|os.O_CREATE, 0644)
	if err != nil {
		return nil, err
	}
	nm, err := storage.LoadCompactNeedleMap(idx)
	if err != nil {
		return nil, err
	}
	return &ChunkCacheVolume{
		DataBackend: backend.NewDiskFile(dat),
		nm:          nm,
		fileName:    fileName,
		smallBuffer: make([]byte, types.NeedlePaddingSize),
		sizeLimit:   preallocate,
		fileSize:    st.Size(),
	}, nil
}

func verifLayer(dir, name string, volumes int, sizeLimit int64) *OnDiskCacheLayer {
	l := &OnDiskCacheLayer{}
	for i := 0; i < volumes; i++ {
		v, err := LoadOrCreateChunkCacheVolume(dir+"/"+name+string(rune('0'+i)), sizeLimit) // engine: redirected to verifNewCacheVolume
		if err != nil {
			panic(err)
		}
		l.diskCaches = append(l.diskCaches, v)
	}
	return l
}

// four file ids: B differs from A only in the volume id, D only in the cookie, C in the key
var verifFids = []string{"3,01637037d6", "4,01637037d6", "3,02637037d6", "3,0163703700"}

// C31: a cache lookup returns nothing or exactly (a prefix of at least the requested size of / the
// requested slice of) the data stored under that same file id.
func VerifC31_TieredCache() {
	dir := rt.TempDir()
	verifMem = map[string][]byte{}
	c := &TieredChunkCache{memCache: NewChunkCacheInMemory(100), onDiskCacheSizeLimit0: 2, onDiskCacheSizeLimit1: 4, onDiskCacheSizeLimit2: 8}
	volSize := int64(rt.Param("volsize", 16))
	c.diskCaches = []*OnDiskCacheLayer{verifLayer(dir, "c0_", 2, volSize), verifLayer(dir, "c1_", 2, volSize), verifLayer(dir, "c2_", 2, volSize)}
	// chunk content is immutable per file id
	content := map[string][]byte{}
	// lengths straddle the tier limits (2 / 4 / 8): two small chunks, one medium, one large
	lens := []int{2, 1, 3, rt.Param("maxlen", 5)}
	for i, fid := range verifFids[:rt.Param("fids", 4)] {
		content[fid] = rt.Bytes("content", lens[i])
	}
	stored := map[string]bool{}
	k := rt.Param("ops", 3)
	for i := 0; i < k; i++ {
		fid := verifFids[rt.Choice("fid", rt.Param("fids", 4))]
		switch rt.Choice("op", 3) {
		case 0:
			c.SetChunk(fid, content[fid])
			stored[fid] = true
		case 1:
			minSize := uint64([]int{0, 2, 3, 5}[rt.Choice("minsize", 4)])
			got := c.GetChunk(fid, minSize)
			rt.Cover("get")
			if got != nil {
				verifCheckServed(fid, stored[fid], got, content[fid], 0)
			}
		case 2:
			off, length := uint64(rt.Len("offset", 0, 2)), uint64(rt.Len("length", 1, 2))
			got := c.GetChunkSlice(fid, off, length)
			rt.Cover("slice")
			if got != nil {
				verifCheckServed(fid, stored[fid], got, content[fid], int(off))
			}
		}
	}
}

func verifCheckServed(fid string, wasStored bool, got, want []byte, off int) {
	foreign := !wasStored
	tag := "served-bytes-belong-to-that-file-id"
	// the on-disk tiers are keyed by the needle key alone
	if fid == "4,01637037d6" || fid == "3,0163703700" || fid == "3,01637037d6" {
		tag += "@known:chunk-cache-disk-tiers-ignore-volume-and-cookie"
	}
	if foreign {
		rt.Assert(false, tag)
		return
	}
	ok := off+len(got) <= len(want)
	if ok {
		ok = rt.BytesEq(got, want[off:off+len(got)])
	}
	rt.Assert(ok, tag)
}

// C31 (rotation): one on-disk layer of two small volumes is filled past its capacity several times
// (so the oldest volume is reset and reused); after every store, every file id stored so far reads as
// nothing or exactly its own bytes, also after the layer is reopened from its files.
func VerifC31_Rotation() {
	dir := rt.TempDir()
	layer := verifLayer(dir, "r_", 2, 16)
	n := rt.Param("stores", 7)
	var contents [][]byte
	check := func() {
		for k, want := range contents {
			got := layer.getChunk(types.NeedleId(k + 1))
			if got != nil {
				rt.Assert(rt.BytesEq(got, want), "rotated-cache-serves-only-the-bytes-stored-under-that-id")
			}
		}
	}
	for i := 0; i < n; i++ {
		data := rt.Bytes("chunk", 3)
		contents = append(contents, data)
		layer.setChunk(types.NeedleId(i+1), data)
		check()
	}
	rt.Cover("rotated")
	layer.shutdown()
	layer = verifLayer(dir, "r_", 2, 16)
	check()
}
