package main

// One long-lived SMT solver process per worker (z3 -in), incremental via push/pop.

import (
	"bufio"
	"fmt"
	"io"
	"os"
	"os/exec"
	"strconv"
	"strings"
	"syscall"
	"time"
)

type Solver struct {
	bin      string
	args     []string
	cmd      *exec.Cmd
	in       *bufio.Writer
	out      *bufio.Reader
	scopes   [][]int    // node ids defined per scope
	vscopes  [][]string // var / uf names declared per scope
	defined  map[int]bool
	declared map[string]bool
	tb       *TB
	Queries  int
	Sat      int
	Unsat    int
	Unknown  int
	Errors   []string
	Time     time.Duration
	log      io.Writer
	timeout  int
	dead     bool
	HardTimeouts int
	ModelTimeouts int
	lastAssert *T
	AllErrors []string
}

func NewSolver(tb *TB, timeoutMs int, logPath string) (*Solver, error) {
	s := &Solver{tb: tb, timeout: timeoutMs}
	// primary: z3 5.1.0 ("z3-new"); z3 4.8.12 hangs in get-value on some ite-heavy models
	s.bin = "z3-new"
	if b := os.Getenv("GSE_Z3"); b != "" {
		s.bin = b
	}
	s.args = []string{"-in", fmt.Sprintf("-t:%d", timeoutMs), "-memory:3000"}
	if logPath != "" {
		f, err := os.Create(logPath)
		if err == nil {
			s.log = f
		}
	}
	if err := s.start(); err != nil {
		return nil, err
	}
	return s, nil
}

func (s *Solver) start() error {
	s.cmd = exec.Command(s.bin, s.args...)
	stdin, err := s.cmd.StdinPipe()
	if err != nil {
		return err
	}
	stdout, err := s.cmd.StdoutPipe()
	if err != nil {
		return err
	}
	s.cmd.Stderr = os.Stderr
	s.cmd.SysProcAttr = &syscall.SysProcAttr{Pdeathsig: syscall.SIGKILL}
	if err := s.cmd.Start(); err != nil {
		return err
	}
	s.in = bufio.NewWriterSize(stdin, 1<<16)
	s.out = bufio.NewReaderSize(stdout, 1<<16)
	s.scopes = [][]int{nil}
	s.vscopes = [][]string{nil}
	s.defined = map[int]bool{}
	s.declared = map[string]bool{}
	s.send("(set-option :produce-models true)")
	s.send("(set-logic ALL)")
	return nil
}

func (s *Solver) Close() {
	if s.cmd != nil {
		s.send("(exit)")
		s.in.Flush()
		done := make(chan struct{})
		go func() { s.cmd.Wait(); close(done) }()
		select {
		case <-done:
		case <-time.After(2 * time.Second):
			s.cmd.Process.Kill()
		}
		s.cmd = nil
	}
}

func (s *Solver) restart() {
	if s.cmd != nil {
		s.cmd.Process.Kill()
		s.cmd.Wait()
	}
	s.dead = false
	s.start()
}

// BeginPath resets the solver to an empty assertion stack (restarting it if it died).
func (s *Solver) BeginPath() {
	if len(s.Errors) > 0 {
		s.AllErrors = append(s.AllErrors, s.Errors...)
		s.Errors = nil
	}
	if s.dead {
		s.restart()
		return
	}
	s.PopTo(0)
}

func (s *Solver) send(line string) {
	if s.dead {
		return
	}
	if s.log != nil {
		fmt.Fprintln(s.log, line)
	}
	s.in.WriteString(line)
	s.in.WriteByte('\n')
}

func (s *Solver) Push() {
	s.send("(push 1)")
	s.scopes = append(s.scopes, nil)
	s.vscopes = append(s.vscopes, nil)
}

func (s *Solver) Pop() {
	s.send("(pop 1)")
	n := len(s.scopes) - 1
	for _, id := range s.scopes[n] {
		delete(s.defined, id)
	}
	for _, v := range s.vscopes[n] {
		delete(s.declared, v)
	}
	s.scopes = s.scopes[:n]
	s.vscopes = s.vscopes[:n]
}

// Depth returns the current push depth.
func (s *Solver) Depth() int { return len(s.scopes) - 1 }

func (s *Solver) PopTo(depth int) {
	for s.Depth() > depth {
		s.Pop()
	}
}

func (s *Solver) declare(name, decl string) {
	if s.declared[name] {
		return
	}
	s.declared[name] = true
	n := len(s.vscopes) - 1
	s.vscopes[n] = append(s.vscopes[n], name)
	s.send(decl)
}

// emit makes sure every node of t is defined in the solver.
func (s *Solver) emit(t *T) {
	switch t.op {
	case OConst:
		return
	case OVar:
		s.declare(t.name, fmt.Sprintf("(declare-const %s %s)", t.name, sortStr(t.w)))
		return
	}
	if s.defined[t.id] {
		return
	}
	for _, a := range t.args {
		s.emit(a)
	}
	if t.op == OUF {
		var sb strings.Builder
		fmt.Fprintf(&sb, "(declare-fun %s (", t.name)
		for _, a := range t.args {
			sb.WriteString(sortStr(a.w) + " ")
		}
		fmt.Fprintf(&sb, ") %s)", sortStr(t.w))
		s.declare("uf:"+t.name, sb.String())
	}
	s.send(fmt.Sprintf("(define-fun n%d () %s %s)", t.id, sortStr(t.w), body(t)))
	s.defined[t.id] = true
	n := len(s.scopes) - 1
	s.scopes[n] = append(s.scopes[n], t.id)
}

func (s *Solver) Assert(t *T) {
	if t.IsConst() && t.k == 1 {
		return
	}
	s.emit(t)
	s.lastAssert = t
	s.send("(assert " + ref(t) + ")")
}

// readLine reads one line with a hard deadline (z3's soft -t timeout is not always honoured):
// past the deadline the process is killed and the query reported as unknown.
func (s *Solver) readLine() (string, error) {
	type res struct {
		line string
		err  error
	}
	ch := make(chan res, 1)
	out := s.out
	go func() {
		line, err := out.ReadString('\n')
		ch <- res{strings.TrimSpace(line), err}
	}()
	select {
	case r := <-ch:
		return r.line, r.err
	case <-time.After(time.Duration(s.timeout)*time.Millisecond + 5*time.Second):
		if s.cmd != nil && s.cmd.Process != nil {
			s.cmd.Process.Kill()
		}
		<-ch
		s.dead = true
		s.HardTimeouts++
		return "unknown", nil
	}
}

// Check runs check-sat and returns "sat", "unsat", "unknown" or "error".
func (s *Solver) Check() string {
	t0 := time.Now()
	s.send("(check-sat)")
	s.in.Flush()
	s.Queries++
	res := ""
	sawErr := false
	for {
		line, err := s.readLine()
		if err != nil {
			s.Errors = append(s.Errors, "solver died: "+err.Error())
			s.Time += time.Since(t0)
			s.dead = true
			return "error"
		}
		if line == "" {
			continue
		}
		if strings.HasPrefix(line, "(error") {
			s.Errors = append(s.Errors, line)
			sawErr = true
			continue
		}
		if line == "sat" || line == "unsat" || line == "unknown" || line == "timeout" {
			res = line
			break
		}
		s.Errors = append(s.Errors, "unexpected solver output: "+line)
		sawErr = true
	}
	s.Time += time.Since(t0)
	if d := time.Since(t0); d > 500*time.Millisecond && os.Getenv("GSE_SLOW") != "" {
		n := 120
		txt := ""
		if s.lastAssert != nil {
			txt = Pretty(s.lastAssert, &n)
		}
		fmt.Fprintf(os.Stderr, "SLOW %.1fs %s: %s\n", d.Seconds(), res, txt)
	}
	if sawErr {
		return "error"
	}
	switch res {
	case "sat":
		s.Sat++
	case "unsat":
		s.Unsat++
	default:
		s.Unknown++
		res = "unknown"
	}
	return res
}

// Model returns values of the given variables after a sat answer; nil if the solver did not deliver
// one in time (z3 4.8.12 occasionally hangs in get-value): the process is then killed and marked dead.
func (s *Solver) Model(vars []*T) map[string]uint64 {
	m := map[string]uint64{}
	var names []string
	for _, v := range vars {
		if s.declared[v.name] {
			names = append(names, v.name)
		}
	}
	if len(names) == 0 {
		return m
	}
	s.send("(get-value (" + strings.Join(names, " ") + "))")
	s.in.Flush()
	type res struct {
		txt string
		ok  bool
	}
	ch := make(chan res, 1)
	out := s.out
	go func() {
		depth := 0
		var txt strings.Builder
		started := false
		for {
			line, err := out.ReadString('\n')
			if err != nil {
				ch <- res{"", false}
				return
			}
			txt.WriteString(line)
			for _, c := range line {
				if c == '(' {
					depth++
					started = true
				} else if c == ')' {
					depth--
				}
			}
			if started && depth <= 0 {
				break
			}
		}
		ch <- res{txt.String(), true}
	}()
	var r res
	select {
	case r = <-ch:
	case <-time.After(10 * time.Second):
		if s.cmd != nil && s.cmd.Process != nil {
			s.cmd.Process.Kill()
		}
		<-ch
		s.dead = true
		s.ModelTimeouts++
		return nil
	}
	if !r.ok {
		s.dead = true
		return nil
	}
	return parseModel(r.txt)
}

func parseModel(txt string) map[string]uint64 {
	m := map[string]uint64{}
	toks := strings.Fields(strings.NewReplacer("(", " ", ")", " ").Replace(txt))
	for i := 0; i+1 < len(toks); i += 2 {
		name, val := toks[i], toks[i+1]
		switch {
		case val == "true":
			m[name] = 1
		case val == "false":
			m[name] = 0
		case strings.HasPrefix(val, "#x"):
			v, _ := strconv.ParseUint(val[2:], 16, 64)
			m[name] = v
		case strings.HasPrefix(val, "#b"):
			v, _ := strconv.ParseUint(val[2:], 2, 64)
			m[name] = v
		}
	}
	return m
}

// ModelOneShot asks z3 5.1.0 for a model of the given assertions (fallback when the primary hangs).
func ModelOneShot(terms []*T, vars []*T, timeoutMs int) map[string]uint64 {
	f, err := os.CreateTemp(os.Getenv("TMPDIR"), "gse_m_*.smt2")
	if err != nil {
		return nil
	}
	defer os.Remove(f.Name())
	script := strings.Replace(Script(terms), "(set-logic ALL)", "(set-option :produce-models true)\n(set-logic ALL)", 1)
	var names []string
	for _, v := range vars {
		if strings.Contains(script, "(declare-const "+v.name+" ") {
			names = append(names, v.name)
		}
	}
	if len(names) > 0 {
		script += "(get-value (" + strings.Join(names, " ") + "))\n"
	}
	f.WriteString(script)
	f.Close()
	c := exec.Command("z3-new", fmt.Sprintf("-T:%d", timeoutMs/1000+1), f.Name())
	c.SysProcAttr = &syscall.SysProcAttr{Pdeathsig: syscall.SIGKILL}
	out, _ := c.Output()
	txt := string(out)
	i := strings.Index(txt, "sat")
	if strings.HasPrefix(strings.TrimSpace(txt), "sat") && i >= 0 {
		return parseModel(txt[i+3:])
	}
	return nil
}

// CheckWith checks satisfiability of the current assertions plus extra, without keeping extra.
func (s *Solver) CheckWith(extra *T) string {
	s.emit(extra) // definitions stay in the path scope: they are usually needed again
	s.Push()
	s.Assert(extra)
	r := s.Check()
	s.Pop()
	return r
}

// Script renders a standalone SMT-LIB2 script asserting all the given terms.
func Script(terms []*T) string {
	var sb strings.Builder
	sb.WriteString("(set-logic ALL)\n")
	seen := map[int]bool{}
	vars := map[string]bool{}
	var emit func(t *T)
	emit = func(t *T) {
		switch t.op {
		case OConst:
			return
		case OVar:
			if !vars[t.name] {
				vars[t.name] = true
				fmt.Fprintf(&sb, "(declare-const %s %s)\n", t.name, sortStr(t.w))
			}
			return
		}
		if seen[t.id] {
			return
		}
		seen[t.id] = true
		for _, a := range t.args {
			emit(a)
		}
		if t.op == OUF && !vars["uf:"+t.name] {
			vars["uf:"+t.name] = true
			fmt.Fprintf(&sb, "(declare-fun %s (", t.name)
			for _, a := range t.args {
				sb.WriteString(sortStr(a.w) + " ")
			}
			fmt.Fprintf(&sb, ") %s)\n", sortStr(t.w))
		}
		fmt.Fprintf(&sb, "(define-fun n%d () %s %s)\n", t.id, sortStr(t.w), body(t))
	}
	for _, t := range terms {
		emit(t)
		fmt.Fprintf(&sb, "(assert %s)\n", ref(t))
	}
	sb.WriteString("(check-sat)\n")
	return sb.String()
}

// Portfolio asks other solvers (one-shot) about a query the primary solver could not decide.
func Portfolio(terms []*T, timeoutMs int) (string, string) {
	f, err := os.CreateTemp(os.Getenv("TMPDIR"), "gse_q_*.smt2")
	if err != nil {
		return "unknown", ""
	}
	defer os.Remove(f.Name())
	f.WriteString(Script(terms))
	f.Close()
	secs := timeoutMs/1000 + 1
	for _, cmd := range [][]string{
		{"z3", fmt.Sprintf("-T:%d", secs), f.Name()},
		{"cvc5", fmt.Sprintf("--tlimit=%d", timeoutMs), f.Name()},
	} {
		c := exec.Command(cmd[0], cmd[1:]...)
		c.SysProcAttr = &syscall.SysProcAttr{Pdeathsig: syscall.SIGKILL}
		done := make(chan []byte, 1)
		go func() { out, _ := c.Output(); done <- out }()
		var out []byte
		select {
		case out = <-done:
		case <-time.After(time.Duration(timeoutMs)*time.Millisecond + 10*time.Second):
			if c.Process != nil {
				c.Process.Kill()
			}
			out = <-done
		}
		for _, line := range strings.Split(string(out), "\n") {
			line = strings.TrimSpace(line)
			if line == "sat" || line == "unsat" {
				return line, cmd[0]
			}
		}
	}
	return "unknown", ""
}
