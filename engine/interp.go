package main

// Symbolic interpreter over go/ssa. One Interp per worker; one run per path prefix.

import (
	"fmt"
	"strconv"
	"go/constant"
	"go/token"
	"go/types"
	"os"
	"strings"
	"sync"

	"golang.org/x/tools/go/ssa"
)

// pathStop ends the current path (Go panic payload).
type pathStop struct {
	kind string // done | assume | violation | unsupported | unwind | budget | inconclusive
	msg  string
}

// goPanic is a panic of the interpreted program.
type goPanic struct {
	v   Value
	msg string
}

type NondetRec struct {
	Tag  string
	Kind string // u8,u16,u32,u64,i32,i64,int,bool,bytes,choice,len,time,rand
	Ts   []*T   // terms (one, or one per byte)
	N    int    // concrete value for choice/len
}

type Violation struct {
	Harness string
	Tag     string
	Msg     string
	Trace   []int
	Replay  []ReplayRec
	Model   map[string]uint64
	PC      []string
	Known   string
}

type ReplayRec struct {
	Tag  string   `json:"tag"`
	Kind string   `json:"kind"`
	V    uint64   `json:"v"`
	B    []uint64 `json:"b,omitempty"`
}

var traceFn = os.Getenv("GSE_TRACE")

type fnInfo struct {
	idx map[ssa.Value]int
	n   int
}

var fnInfoCache sync.Map

func getFnInfo(fn *ssa.Function) *fnInfo {
	if v, ok := fnInfoCache.Load(fn); ok {
		return v.(*fnInfo)
	}
	fi := &fnInfo{idx: map[ssa.Value]int{}}
	add := func(v ssa.Value) {
		fi.idx[v] = fi.n
		fi.n++
	}
	for _, p := range fn.Params {
		add(p)
	}
	for _, p := range fn.FreeVars {
		add(p)
	}
	for _, b := range fn.Blocks {
		for _, ins := range b.Instrs {
			if v, ok := ins.(ssa.Value); ok {
				add(v)
			}
		}
	}
	fnInfoCache.Store(fn, fi)
	return fi
}

type deferred struct {
	fn    Value
	args  []Value
	instr *ssa.Defer
	tail  *deferred
}

type frame struct {
	in        *Interp
	caller    *frame
	fn        *ssa.Function
	fi        *fnInfo
	block     *ssa.BasicBlock
	prev      *ssa.BasicBlock
	env       []Value
	defers    *deferred
	result    Value
	panicking bool
	panicv    interface{}
	symIf     map[ssa.Instruction]int
	depth     int
	skipPhis  bool
}

type Shared struct {
	prog     *ssa.Program
	cfg      *Config
	mu       sync.Mutex
	funcs    map[string]bool // functions executed (outside harness/rt)
	redirect map[string]*ssa.Function
	redirSeen map[string]bool
	observe   map[string]*ssa.Function
	buildMu  sync.Mutex
}

type Interp struct {
	sh   *Shared
	prog *ssa.Program
	tb   *TB
	sol  *Solver
	cfg  *Config

	// per path
	prefix   []int
	pos      int
	trace    []int
	pc       []*T
	globals  map[*ssa.Global]*Value
	initDone map[*ssa.Package]int // 1 running, 2 done
	nondet   []NondetRec
	occ      map[string]int
	covers   map[string]bool
	steps    int
	initMode int
	vars     []*T
	fs       *FS
	clockN   int
	lastNow  *T
	lastSec  *T
	lastNsec *T
	harness  string
	forks    func(prefix []int)
	expectPanic bool
	depth    int
	curFr    *frame
	tmpDirs  int
	wantClean   *int32
	cleanReplay []ReplayRec
	ghost    map[string]Value
	speculating bool
	merges   int
	pathViol []*Violation
	fmtLazy  bool
	divN     int
	decided  map[*T]bool
	curModel map[string]uint64
	pendingModel map[string]uint64
	pendingFor *T
	portfolio map[string]int
	initStored map[*ssa.Global]bool

	// per worker accumulators
	funcsSeen map[*ssa.Function]bool
	branches  int
	vcs       int
	vcsUnsat  int
	vcsConst  int
	unknowns  []string
	samples   []string
}

func (in *Interp) unsupported(format string, a ...interface{}) {
	if in.speculating {
		panic(specAbort{"unsupported"})
	}
	panic(pathStop{"unsupported", fmt.Sprintf(format, a...)})
}

// ---------------------------------------------------------------- decisions

const (
	dFalse       = 0
	dTrue        = 1
	dForcedFalse = 2
	dForcedTrue  = 3
	dChoice      = 100
)

func (in *Interp) assume(t *T) {
	if t.IsConst() {
		if t.k == 0 {
			panic(pathStop{"assume", "constant false"})
		}
		return
	}
	in.sol.Assert(t)
	in.pc = append(in.pc, t)
	// keep a model of the path condition when one is at hand
	if in.curModel != nil {
		bad := false
		v := Eval(t, in.curModel, map[*T]uint64{}, func(string, []uint64) uint64 { bad = true; return 0 })
		if bad || v != 1 {
			in.curModel = nil
		}
	}
	in.pendingModel, in.pendingFor = nil, nil
}

// branch decides a symbolic condition, forking the path if both outcomes are feasible.
// Two economies: (1) a condition already decided on this path is not asked again; (2) the model of the
// last satisfiable query tells which side is certainly feasible, so only the other side is queried.
func (in *Interp) branch(c *T) bool {
	if c.IsConst() {
		return c.k == 1
	}
	if in.initMode > 0 {
		in.unsupported("symbolic branch during package initialisation")
	}
	if in.speculating {
		panic(specAbort{"branch"})
	}
	if v, ok := in.decided[c]; ok {
		return v
	}
	in.branches++
	if in.pos < len(in.prefix) {
		d := in.prefix[in.pos]
		in.pos++
		in.trace = append(in.trace, d)
		switch d {
		case dTrue:
			in.assume(c)
			in.remember(c, true)
			return true
		case dFalse:
			in.assume(in.tb.Not(c))
			in.remember(c, false)
			return false
		case dForcedTrue:
			in.remember(c, true)
			return true
		case dForcedFalse:
			in.remember(c, false)
			return false
		}
		panic(fmt.Sprintf("prefix mismatch: decision %d at a binary branch (nondeterministic re-execution?)", d))
	}
	in.pos++
	solverErr := func() {
		panic(pathStop{"inconclusive", "solver error: " + strings.Join(in.sol.Errors, "; ")})
	}
	// which side does the current model (if any) witness?
	known, side := in.modelSide(c)
	var rT, rF string
	if known && side {
		rT = "sat"
	} else {
		rT = in.checkSide(c)
	}
	if rT == "error" {
		solverErr()
	}
	if rT == "unknown" {
		// second opinion (one-shot solvers) before keeping a side whose feasibility is undecided
		if pr, who := Portfolio(append(append([]*T(nil), in.pc...), c), in.cfg.TimeoutMs); pr == "unsat" {
			in.portfolio[who]++
			rT = "unsat"
		}
	}
	if rT == "unsat" {
		in.trace = append(in.trace, dForcedFalse)
		in.prefix = append(in.prefix, dForcedFalse)
		in.remember(c, false)
		return false
	}
	if known && !side {
		rF = "sat"
	} else {
		rF = in.checkSide(in.tb.Not(c))
	}
	if rF == "error" {
		solverErr()
	}
	if rF == "unknown" {
		if pr, who := Portfolio(append(append([]*T(nil), in.pc...), in.tb.Not(c)), in.cfg.TimeoutMs); pr == "unsat" {
			in.portfolio[who]++
			rF = "unsat"
		}
	}
	if rF == "unsat" {
		in.trace = append(in.trace, dForcedTrue)
		in.prefix = append(in.prefix, dForcedTrue)
		in.remember(c, true)
		return true
	}
	// both feasible (or unknown: keep both, an over-approximation of feasibility)
	alt := append(append([]int(nil), in.trace...), dFalse)
	in.forks(alt)
	in.trace = append(in.trace, dTrue)
	in.prefix = append(in.prefix, dTrue)
	in.assume(c)
	in.remember(c, true)
	return true
}

func (in *Interp) remember(c *T, v bool) {
	in.decided[c] = v
	in.decided[in.tb.Not(c)] = !v
}

// modelSide evaluates c under the model of the last satisfiable query of this path, if it is still valid.
func (in *Interp) modelSide(c *T) (known bool, side bool) {
	if in.curModel == nil {
		return false, false
	}
	bad := false
	v := Eval(c, in.curModel, map[*T]uint64{}, func(string, []uint64) uint64 { bad = true; return 0 })
	if bad {
		return false, false
	}
	return true, v == 1
}

// resync rebuilds the solver state of the current path after the solver process had to be killed.
func (in *Interp) resync() {
	in.sol.restart()
	in.sol.Push()
	for _, t := range in.pc {
		in.sol.Assert(t)
	}
}

// checkSide asks the solver whether pc ∧ t is satisfiable; a model is kept when it is and t is then assumed.
func (in *Interp) checkSide(t *T) string {
	in.sol.emit(t)
	in.sol.Push()
	in.sol.Assert(t)
	r := in.sol.Check()
	if r == "sat" {
		// a model of pc ∧ t is in particular a model of pc
		in.curModel = in.sol.Model(in.vars)
		if in.sol.dead {
			in.curModel = nil
			in.resync()
			return r
		}
	}
	in.sol.Pop()
	return r
}

// branchTrue is branch() for conditions that are expected to hold (bounds, nil, zero checks):
// the negation is queried first so that the common case costs one query.
func (in *Interp) branchTrue(c *T) bool {
	if c.IsConst() {
		return c.k == 1
	}
	// always decided on the negation, so that recorded decisions mean the same thing in replays
	return !in.branch(in.tb.Not(c))
}

// choice forks over n alternatives that are all feasible by construction.
func (in *Interp) choice(n int) int {
	if n <= 0 {
		panic(pathStop{"assume", "empty choice"})
	}
	if n == 1 {
		return 0
	}
	if in.pos < len(in.prefix) {
		d := in.prefix[in.pos]
		in.pos++
		in.trace = append(in.trace, d)
		if d < dChoice {
			panic("prefix mismatch: binary decision at a choice")
		}
		return d - dChoice
	}
	in.pos++
	for i := n - 1; i >= 1; i-- {
		alt := append(append([]int(nil), in.trace...), dChoice+i)
		in.forks(alt)
	}
	in.trace = append(in.trace, dChoice)
	in.prefix = append(in.prefix, dChoice)
	return 0
}

// concretize forks over the feasible values of t in [0,n).
func (in *Interp) concretize(t *T, n int) int {
	if t.IsConst() {
		return int(t.k)
	}
	for v := 0; v < n-1; v++ {
		if in.branch(in.tb.Eq(t, in.tb.BV(t.w, uint64(v)))) {
			return v
		}
	}
	// last value: forced by the in-range assumption made by the caller
	in.assume(in.tb.Eq(t, in.tb.BV(t.w, uint64(n-1))))
	if in.sol.Check() == "unsat" {
		panic(pathStop{"assume", "concretize: no value"})
	}
	return n - 1
}

func (in *Interp) freshVar(tag string, w int) *T {
	n := in.occ[tag]
	in.occ[tag] = n + 1
	name := fmt.Sprintf("%s!%d", sanitize(tag), n)
	v := in.tb.Var(name, w)
	in.vars = append(in.vars, v)
	return v
}

func sanitize(s string) string {
	var sb strings.Builder
	for _, c := range s {
		if c >= 'a' && c <= 'z' || c >= 'A' && c <= 'Z' || c >= '0' && c <= '9' || c == '_' || c == '.' {
			sb.WriteRune(c)
		} else {
			sb.WriteByte('_')
		}
	}
	return sb.String()
}

// model returns a model of the current path condition (plus extra), or nil.
func (in *Interp) modelWith(extra *T) (map[string]uint64, string) {
	in.sol.Push()
	if extra != nil {
		in.sol.Assert(extra)
	}
	r := in.sol.Check()
	var m map[string]uint64
	if r == "sat" {
		m = in.sol.Model(in.vars)
		if in.sol.dead {
			// the primary solver hung while printing the model: rebuild it and ask z3 5.1.0 for the model
			in.resync()
			q := append([]*T(nil), in.pc...)
			if extra != nil {
				q = append(q, extra)
			}
			m = ModelOneShot(q, in.vars, in.cfg.TimeoutMs)
			if m == nil {
				return nil, "unknown"
			}
			return m, r
		}
	}
	in.sol.Pop()
	return m, r
}

func (in *Interp) mkReplay(m map[string]uint64) []ReplayRec {
	memo := map[*T]uint64{}
	uf := func(name string, args []uint64) uint64 { return 0 }
	var out []ReplayRec
	for _, r := range in.nondet {
		rr := ReplayRec{Tag: r.Tag, Kind: r.Kind}
		switch r.Kind {
		case "choice", "len":
			rr.V = uint64(r.N)
		case "time":
			rr.V = Eval(r.Ts[0], m, memo, uf)
			rr.B = []uint64{Eval(r.Ts[1], m, memo, uf) % 1000000000}
		case "bytes":
			rr.B = make([]uint64, len(r.Ts))
			for i, t := range r.Ts {
				rr.B[i] = Eval(t, m, memo, uf)
			}
		default:
			rr.V = Eval(r.Ts[0], m, memo, uf)
		}
		out = append(out, rr)
	}
	return out
}

func (in *Interp) violation(tag, msg string, m map[string]uint64) {
	v := &Violation{Harness: in.harness, Tag: tag, Msg: msg, Trace: append([]int(nil), in.trace...), Model: m}
	v.Replay = in.mkReplay(m)
	for _, p := range in.pc {
		n := 60
		v.PC = append(v.PC, Pretty(p, &n))
	}
	if strings.Contains(tag, "@known:") {
		// a declared known-finding site: record it and keep exploring this path
		in.pathViol = append(in.pathViol, v)
		return
	}
	panic(v)
}

// vc discharges a verification condition on the current path.
func (in *Interp) vc(cond *T, tag, msg string) {
	if in.pos < len(in.prefix) {
		// still replaying the decisions of the parent path: this very VC was discharged there under the
		// same path condition
		if strings.Contains(tag, "@known:") {
			in.assume(cond)
		}
		return
	}
	in.vcs++
	if cond.IsConst() {
		if cond.k == 1 {
			in.vcsConst++
			in.vcsUnsat++
			return
		}
		m, r := in.modelWith(nil)
		if r == "unknown" {
			if pr, who := Portfolio(in.pc, in.cfg.TimeoutMs); pr == "unsat" {
				in.portfolio[who]++
				r = "unsat"
			}
		}
		if r == "unsat" {
			panic(pathStop{"assume", "infeasible"})
		}
		if r != "sat" {
			if os.Getenv("GSE_DUMPVC") != "" {
				fmt.Fprintf(os.Stderr, "UNKNOWN VC %s: constant false, path feasibility unknown\n", tag)
				for _, p := range in.pc {
					n := 400
					fmt.Fprintf(os.Stderr, "   pc: %s\n", Pretty(p, &n))
				}
			}
			panic(pathStop{"inconclusive", "solver " + r + " on VC " + tag})
		}
		in.violation(tag, msg, m)
		panic(pathStop{"assume", "known-finding site always fails here"})
	}
	m, r := in.modelWith(in.tb.Not(cond))
	if r == "unknown" && !in.sol.dead || r == "unknown" {
		// second opinion from other solvers on the same query (only "unsat" is used: no model parsing)
		q := append(append([]*T(nil), in.pc...), in.tb.Not(cond))
		if pr, who := Portfolio(q, in.cfg.TimeoutMs); pr == "unsat" {
			in.portfolio[who]++
			r = "unsat"
		}
	}
	switch r {
	case "unsat":
		in.vcsUnsat++
		if strings.Contains(tag, "@known:") {
			in.assume(cond) // keeps the path condition identical in replays of this prefix
		}
		if len(in.samples) < 6 {
			n := 80
			in.samples = append(in.samples, fmt.Sprintf("VC %s/%s: pc(%d conjuncts) ⇒ %s : unsat(negation)", in.harness, tag, len(in.pc), Pretty(cond, &n)))
		}
		return
	case "sat":
		in.violation(tag, msg, m)
		in.assume(cond)
		if in.sol.Check() == "unsat" {
			panic(pathStop{"assume", "after known finding"})
		}
		return
	default:
		if os.Getenv("GSE_DUMPVC") != "" {
			n := 600
			fmt.Fprintf(os.Stderr, "UNKNOWN VC %s: %s\n", tag, Pretty(cond, &n))
			for _, p := range in.pc {
				n := 300
				fmt.Fprintf(os.Stderr, "   pc: %s\n", Pretty(p, &n))
			}
		}
		panic(pathStop{"inconclusive", "solver " + r + " on VC " + tag + ": " + strings.Join(in.sol.Errors, ";")})
	}
}

// ---------------------------------------------------------------- frames

func (in *Interp) constValue(c *ssa.Const) Value {
	t := c.Type()
	if c.Value == nil {
		if _, ok := t.(*types.TypeParam); ok {
			panic("typeparam const")
		}
		return in.zero(t)
	}
	if bt, ok := t.Underlying().(*types.Basic); ok {
		switch {
		case bt.Info()&types.IsBoolean != 0:
			return in.tb.Bool(constant.BoolVal(c.Value))
		case bt.Info()&types.IsString != 0:
			if c.Value.Kind() == constant.String {
				return in.mkStr(constant.StringVal(c.Value))
			}
			return in.mkStr(string(rune(c.Int64())))
		case bt.Info()&types.IsInteger != 0:
			w := widthOf(bt)
			if bt.Info()&types.IsUnsigned != 0 {
				return in.tb.BV(w, c.Uint64())
			}
			return in.tb.BV(w, uint64(c.Int64()))
		case bt.Info()&types.IsFloat != 0:
			if bt.Kind() == types.Float32 {
				return F32(c.Float64())
			}
			return F64(c.Float64())
		case bt.Info()&types.IsComplex != 0:
			return Poison{"complex const"}
		}
	}
	panic(fmt.Sprintf("constValue: %v %T", c, t))
}

func (fr *frame) get(key ssa.Value) Value {
	switch key := key.(type) {
	case nil:
		return nil
	case *ssa.Function:
		return key
	case *ssa.Builtin:
		return key
	case *ssa.Const:
		return fr.in.constValue(key)
	case *ssa.Global:
		return fr.in.global(key)
	}
	if i, ok := fr.fi.idx[key]; ok {
		return fr.env[i]
	}
	panic(fmt.Sprintf("get: no value for %T: %v", key, key.Name()))
}

func (fr *frame) set(key ssa.Value, v Value) {
	fr.env[fr.fi.idx[key]] = v
}

// global returns the cell of a package-level variable, running the package initialiser lazily.
func (in *Interp) global(g *ssa.Global) *Value {
	if p, ok := in.globals[g]; ok {
		return p
	}
	pkg := g.Pkg
	in.ensureInit(pkg)
	if p, ok := in.globals[g]; ok {
		return p
	}
	return in.allocGlobal(g)
}

func (in *Interp) allocGlobal(g *ssa.Global) *Value {
	p := new(Value)
	*p = in.zero(deref(g.Type()))
	in.globals[g] = p
	return p
}

func deref(t types.Type) types.Type {
	if p, ok := t.Underlying().(*types.Pointer); ok {
		return p.Elem()
	}
	panic("deref of non-pointer " + t.String())
}

func (in *Interp) ensureBuilt(pkg *ssa.Package) {
	if pkg == nil {
		return
	}
	pkg.Build() // sync.Once inside: concurrent callers wait for the build to finish
}

func (in *Interp) ensureInit(pkg *ssa.Package) {
	if pkg == nil || in.initDone[pkg] != 0 {
		return
	}
	in.initDone[pkg] = 1
	for _, m := range pkg.Members {
		if g, ok := m.(*ssa.Global); ok {
			if _, ok := in.globals[g]; !ok {
				in.allocGlobal(g)
			}
		}
	}
	path := pkg.Pkg.Path()
	if deniedPkg(path) || noInitPkg(path) {
		if deniedPkg(path) {
			for _, m := range pkg.Members {
				if g, ok := m.(*ssa.Global); ok {
					*in.globals[g] = Poison{"global of stubbed package " + path}
				}
			}
		}
		in.initDone[pkg] = 2
		if path == "time" {
			in.initTimeTables(pkg)
		}
		return
	}
	in.ensureBuilt(pkg)
	initFn := pkg.Func("init")
	if initFn != nil && initFn.Blocks != nil {
		in.initMode++
		func() {
			defer func() {
				in.initMode--
				if r := recover(); r != nil {
					switch r := r.(type) {
					case pathStop:
						if r.kind == "unsupported" {
							// the rest of this package's initialisers did not run: poison what is still zero?
							// we keep what was initialised; later reads of uninitialised globals see zero values,
							// so record the event and let reads of globals of this package be flagged.
							in.initFailed(pkg, r.msg)
							return
						}
						panic(r)
					case goPanic:
						in.initFailed(pkg, "panic in init: "+r.msg)
						return
					default:
						panic(r)
					}
				}
			}()
			in.callSSA(nil, initFn, nil, nil)
		}()
	}
	in.initDone[pkg] = 2
}

func (in *Interp) initFailed(pkg *ssa.Package, why string) {
	// globals whose initialiser did not run are poisoned (never silently zero)
	if initFn := pkg.Func("init"); initFn != nil {
		for _, b := range initFn.Blocks {
			for _, ins := range b.Instrs {
				if st, ok := ins.(*ssa.Store); ok {
					if g, ok := st.Addr.(*ssa.Global); ok && !in.initStored[g] && g.Name() != "init$guard" {
						*in.globals[g] = Poison{"global " + g.String() + " (package init incomplete: " + why + ")"}
					}
				}
			}
		}
	}
	if os.Getenv("GSE_DEBUG") != "" {
		fmt.Fprintf(os.Stderr, "init of %s incomplete: %s\n", pkg.Pkg.Path(), why)
	}
	if strings.HasPrefix(pkg.Pkg.Path(), "github.com/chrislusf/seaweedfs") && !in.cfg.AllowInitFail[pkg.Pkg.Path()] {
		panic(pathStop{"unsupported", "package init of " + pkg.Pkg.Path() + " could not be executed: " + why})
	}
}

func (in *Interp) newFrame(caller *frame, fn *ssa.Function) *frame {
	fi := getFnInfo(fn)
	fr := &frame{in: in, caller: caller, fn: fn, fi: fi, env: make([]Value, fi.n)}
	if caller != nil {
		fr.depth = caller.depth + 1
	}
	return fr
}

func (in *Interp) callSSA(caller *frame, fn *ssa.Function, args []Value, env []Value) Value {
	// always synchronise with a build that may be in progress on another worker
	if fn.Pkg != nil {
		in.ensureBuilt(fn.Pkg)
	} else if o := fn.Origin(); o != nil && o.Pkg != nil {
		in.ensureBuilt(o.Pkg)
	} else if p := fn.Parent(); p != nil && p.Pkg != nil {
		in.ensureBuilt(p.Pkg)
	}
	if fn.Blocks == nil {
		if in.initMode > 0 {
			return in.poisonResult(fn.Signature, "external "+fn.String())
		}
		in.unsupported("no body for %s", fn.String())
	}
	if !in.funcsSeen[fn] {
		in.funcsSeen[fn] = true
	}
	fr := in.newFrame(caller, fn)
	if fr.depth > 400 {
		in.unsupported("call depth exceeded at %s", fn.String())
	}
	for i, p := range fn.Params {
		fr.env[fr.fi.idx[p]] = args[i]
	}
	for i, fv := range fn.FreeVars {
		fr.env[fr.fi.idx[fv]] = env[i]
	}
	for _, l := range fn.Locals {
		p := new(Value)
		fr.env[fr.fi.idx[l]] = p
	}
	fr.block = fn.Blocks[0]
	saved := in.curFr
	in.curFr = fr
	for fr.block != nil {
		fr.runBlocks()
	}
	in.curFr = saved
	return fr.result
}

// whereAmI names the innermost interpreted functions (for engine-error reports).
func (in *Interp) whereAmI() string {
	var names []string
	for f := in.curFr; f != nil && len(names) < 6; f = f.caller {
		names = append(names, f.fn.String())
	}
	return strings.Join(names, " <- ")
}

// runBlocks runs until return; a panic in the interpreted program is routed to the recover block.
func (fr *frame) runBlocks() {
	defer func() {
		if fr.block == nil {
			return // normal return
		}
		r := recover()
		if r == nil {
			return
		}
		if _, ok := r.(goPanic); !ok {
			panic(r) // path stop, violation or engine bug
		}
		fr.panicking = true
		fr.panicv = r
		fr.runDefers()
		// recovered
		if fr.fn.Recover != nil {
			fr.block = fr.fn.Recover
		} else {
			// function has no named results: return zero values
			fr.result = fr.in.zeroResult(fr.fn.Signature)
			fr.block = nil
		}
	}()
	for {
		b := fr.block
		// phis
		nphi := 0
		if fr.skipPhis {
			fr.skipPhis = false
			for _, ins := range b.Instrs {
				if _, ok := ins.(*ssa.Phi); !ok {
					break
				}
				nphi++
			}
		} else if fr.prev != nil {
			var edge int
			for i, p := range b.Preds {
				if p == fr.prev {
					edge = i
					break
				}
			}
			var vals []Value
			for _, ins := range b.Instrs {
				phi, ok := ins.(*ssa.Phi)
				if !ok {
					break
				}
				vals = append(vals, fr.get(phi.Edges[edge]))
				nphi++
			}
			for i := 0; i < nphi; i++ {
				fr.set(b.Instrs[i].(*ssa.Phi), vals[i])
			}
		}
		jumped := false
		for _, ins := range b.Instrs[nphi:] {
			fr.in.steps++
			if fr.in.steps > fr.in.cfg.MaxSteps {
				panic(pathStop{"budget", fmt.Sprintf("step budget %d exhausted in %s", fr.in.cfg.MaxSteps, fr.fn)})
			}
			if traceFn != "" && strings.Contains(fr.fn.String(), traceFn) {
				r := fr.visit(ins)
				if v, ok := ins.(ssa.Value); ok {
					fmt.Fprintf(os.Stderr, "TRACE %s: %s = %s   => %s\n", fr.fn.Name(), v.Name(), ins.String(), showValue(fr.env[fr.fi.idx[v]]))
				} else {
					fmt.Fprintf(os.Stderr, "TRACE %s: %s\n", fr.fn.Name(), ins.String())
				}
				if r == kReturn {
					return
				}
				if r == kJump {
					jumped = true
					break
				}
				continue
			}
			switch fr.visit(ins) {
			case kReturn:
				return
			case kJump:
				jumped = true
			}
			if jumped {
				break
			}
		}
		if !jumped {
			panic("block fell through: " + fr.fn.String())
		}
	}
}

func (in *Interp) zeroResult(sig *types.Signature) Value {
	switch sig.Results().Len() {
	case 0:
		return nil
	case 1:
		return in.zero(sig.Results().At(0).Type())
	}
	return in.zero(sig.Results())
}

func (in *Interp) poisonResult(sig *types.Signature, why string) Value {
	switch sig.Results().Len() {
	case 0:
		return nil
	case 1:
		return Poison{why}
	}
	t := make(Tuple, sig.Results().Len())
	for i := range t {
		t[i] = Poison{why}
	}
	return t
}

func (fr *frame) runDefers() {
	for fr.defers != nil {
		d := fr.defers
		fr.defers = d.tail
		fr.runDefer(d)
	}
	if fr.panicking {
		panic(fr.panicv)
	}
}

func (fr *frame) runDefer(d *deferred) {
	ok := false
	defer func() {
		if !ok {
			r := recover()
			if gp, isGo := r.(goPanic); isGo {
				fr.panicking = true
				fr.panicv = gp
			} else {
				panic(r)
			}
		}
	}()
	fr.in.call(fr, d.fn, d.args)
	ok = true
}

// storeInto assigns v to *dst. Structs and arrays are assigned element-wise in place so that
// pointers to their fields / elements taken earlier stay valid (they alias the same memory in Go).
func storeInto(dst *Value, v Value) {
	switch nv := v.(type) {
	case Struct:
		if old, ok := (*dst).(Struct); ok && len(old) == len(nv) {
			for i := range nv {
				storeInto(&old[i], nv[i])
			}
			return
		}
	case Array:
		if old, ok := (*dst).(Array); ok && len(old) == len(nv) {
			if len(nv) > 0 {
				if _, scalar := nv[0].(*T); scalar {
					copy(old, nv)
					return
				}
			}
			for i := range nv {
				storeInto(&old[i], nv[i])
			}
			return
		}
	}
	*dst = copyVal(v)
}

type cont int

const (
	kNext cont = iota
	kReturn
	kJump
)

func (fr *frame) rtPanic(msg string) {
	if fr.in.speculating {
		panic(specAbort{"panic"})
	}
	panic(goPanic{v: fr.in.mkStr("runtime error: " + msg), msg: "runtime error: " + msg + " in " + fr.fn.String()})
}

func (fr *frame) visit(instr ssa.Instruction) cont {
	in := fr.in
	switch instr := instr.(type) {
	case *ssa.DebugRef:
	case *ssa.UnOp:
		fr.set(instr, in.unop(fr, instr, fr.get(instr.X)))
	case *ssa.BinOp:
		fr.set(instr, in.binop(fr, instr.Op, instr.X.Type(), fr.get(instr.X), fr.get(instr.Y)))
	case *ssa.Call:
		fn, args := fr.prepareCall(&instr.Call)
		fr.set(instr, in.call(fr, fn, args))
	case *ssa.ChangeInterface:
		fr.set(instr, fr.get(instr.X))
	case *ssa.ChangeType:
		fr.set(instr, fr.get(instr.X))
	case *ssa.Convert:
		fr.set(instr, in.conv(fr, instr.Type(), instr.X.Type(), fr.get(instr.X)))
	case *ssa.SliceToArrayPointer:
		x := fr.get(instr.X).([]Value)
		n := int(instr.Type().Underlying().(*types.Pointer).Elem().Underlying().(*types.Array).Len())
		if len(x) < n {
			fr.rtPanic("cannot convert slice to array pointer")
		}
		if x == nil {
			fr.set(instr, (*Value)(nil))
		} else {
			p := new(Value)
			*p = Array(x[:n:n])
			fr.set(instr, p)
		}
	case *ssa.MakeInterface:
		fr.set(instr, Iface{t: instr.X.Type(), v: fr.get(instr.X)})
	case *ssa.Extract:
		tv := fr.get(instr.Tuple)
		if p, ok := tv.(Poison); ok {
			fr.set(instr, p)
		} else {
			fr.set(instr, tv.(Tuple)[instr.Index])
		}
	case *ssa.Slice:
		fr.set(instr, in.slice(fr, instr, fr.get(instr.X), fr.get(instr.Low), fr.get(instr.High), fr.get(instr.Max)))
	case *ssa.Return:
		switch len(instr.Results) {
		case 0:
		case 1:
			fr.result = fr.get(instr.Results[0])
		default:
			res := make(Tuple, len(instr.Results))
			for i, r := range instr.Results {
				res[i] = fr.get(r)
			}
			fr.result = res
		}
		fr.block = nil
		return kReturn
	case *ssa.RunDefers:
		fr.runDefers()
	case *ssa.Panic:
		v := fr.get(instr.X)
		panic(goPanic{v: v, msg: "panic: " + in.panicText(v) + " in " + fr.fn.String()})
	case *ssa.Send:
		in.chanSend(fr, fr.get(instr.Chan), fr.get(instr.X))
	case *ssa.Store:
		p := fr.get(instr.Addr)
		if sp, isSym := p.(*SymPtr); isSym {
			v := fr.get(instr.Val).(*T)
			for i := range sp.arr {
				sp.arr[i] = in.tb.Ite(in.tb.Eq(sp.idx, in.tb.BV(64, uint64(i))), v, sp.arr[i].(*T))
			}
			break
		}
		pp, ok := p.(*Value)
		if !ok {
			in.unsupported("store through %T in %s", p, fr.fn)
		}
		if pp == nil {
			fr.rtPanic("invalid memory address or nil pointer dereference (store)")
		}
		if in.initMode > 0 {
			if g, ok := instr.Addr.(*ssa.Global); ok {
				in.initStored[g] = true
			}
		}
		storeInto(pp, fr.get(instr.Val))
	case *ssa.If:
		c := fr.get(instr.Cond)
		ct, ok := c.(*T)
		if !ok {
			in.unsupported("branch on %T (%v) in %s", c, c, fr.fn)
		}
		var taken bool
		if ct.IsConst() {
			taken = ct.k == 1
		} else {
			if r, ok := in.tryMerge(fr, instr, ct); ok {
				return r
			}
			if fr.symIf == nil {
				fr.symIf = map[ssa.Instruction]int{}
			}
			fr.symIf[instr]++
			if fr.symIf[instr] > in.cfg.Unwind {
				panic(pathStop{"unwind", fmt.Sprintf("unwinding bound %d reached at %s block %d", in.cfg.Unwind, fr.fn, fr.block.Index)})
			}
			taken = in.branch(ct)
		}
		succ := 1
		if taken {
			succ = 0
		}
		fr.prev, fr.block = fr.block, fr.block.Succs[succ]
		return kJump
	case *ssa.Jump:
		fr.prev, fr.block = fr.block, fr.block.Succs[0]
		return kJump
	case *ssa.Defer:
		fn, args := fr.prepareCall(&instr.Call)
		fr.defers = &deferred{fn: fn, args: args, instr: instr, tail: fr.defers}
	case *ssa.Go:
		fn, args := fr.prepareCall(&instr.Call)
		in.goStmt(fr, fn, args)
	case *ssa.MakeChan:
		n := in.concreteInt(fr.get(instr.Size), "chan size")
		fr.set(instr, &Chan{cap: n})
	case *ssa.Alloc:
		var addr *Value
		if instr.Heap {
			addr = new(Value)
			fr.set(instr, addr)
		} else {
			addr = fr.get(instr).(*Value)
		}
		*addr = in.zero(deref(instr.Type()))
	case *ssa.MakeSlice:
		c := in.concreteInt(fr.get(instr.Cap), "make cap")
		l := in.concreteInt(fr.get(instr.Len), "make len")
		if l < 0 || c < l {
			fr.rtPanic("makeslice: len out of range")
		}
		if c > 1<<26 {
			in.unsupported("make of %d elements", c)
		}
		et := instr.Type().Underlying().(*types.Slice).Elem()
		s := make([]Value, c)
		if c > 0 {
			z := in.zero(et)
			if _, ok := z.(*T); ok {
				for i := range s {
					s[i] = z
				}
			} else {
				s[0] = z
				for i := 1; i < c; i++ {
					s[i] = in.zero(et)
				}
			}
		}
		fr.set(instr, s[:l])
	case *ssa.MakeMap:
		fr.set(instr, newMap(instr.Type().Underlying().(*types.Map).Key()))
	case *ssa.Range:
		fr.set(instr, in.rangeIter(fr, fr.get(instr.X), instr.X.Type()))
	case *ssa.Next:
		fr.set(instr, fr.get(instr.Iter).(iterator).next(fr))
	case *ssa.FieldAddr:
		p := fr.get(instr.X)
		pp, ok := p.(*Value)
		if !ok {
			in.unsupported("FieldAddr on %T (%v) in %s", p, p, fr.fn)
		}
		if pp == nil {
			fr.rtPanic("invalid memory address or nil pointer dereference")
		}
		st, ok := (*pp).(Struct)
		if !ok {
			in.unsupported("FieldAddr of non-struct cell %T (%v) in %s", *pp, *pp, fr.fn)
		}
		fr.set(instr, &st[instr.Field])
	case *ssa.Field:
		x := fr.get(instr.X)
		if p, ok := x.(Poison); ok {
			fr.set(instr, p)
		} else {
			fr.set(instr, x.(Struct)[instr.Field])
		}
	case *ssa.IndexAddr:
		x := fr.get(instr.X)
		var arr []Value
		switch x := x.(type) {
		case []Value:
			arr = x
		case *Value:
			if x == nil {
				fr.rtPanic("nil pointer dereference (index)")
			}
			arr = (*x).(Array)
		default:
			in.unsupported("IndexAddr on %T", x)
		}
		if it, ok := fr.get(instr.Index).(*T); ok && !it.IsConst() && len(arr) > 0 && len(arr) <= 4096 {
			if _, scalar := arr[0].(*T); scalar {
				// symbolic element address over scalars: loads become ite-chains, stores conditional updates
				t64 := in.to64(it, instr.Index.Type())
				if !in.branchTrue(in.tb.ULt(t64, in.tb.BV(64, uint64(len(arr))))) {
					fr.rtPanic(fmt.Sprintf("index out of range [symbolic] with length %d", len(arr)))
				}
				fr.set(instr, &SymPtr{arr: arr, idx: t64})
				break
			}
		}
		i := in.indexIn(fr, fr.get(instr.Index), instr.Index.Type(), len(arr), true)
		fr.set(instr, &arr[i])
	case *ssa.Index:
		x := fr.get(instr.X)
		switch x := x.(type) {
		case Array:
			fr.set(instr, in.indexValue(fr, []Value(x), fr.get(instr.Index), instr.Index.Type()))
		case Str:
			fr.set(instr, in.strIndex(fr, x, fr.get(instr.Index), instr.Index.Type()))
		default:
			in.unsupported("Index on %T", x)
		}
	case *ssa.Lookup:
		fr.set(instr, in.lookup(fr, instr, fr.get(instr.X), fr.get(instr.Index)))
	case *ssa.MapUpdate:
		m := fr.get(instr.Map)
		mm, ok := m.(*Map)
		if !ok {
			in.unsupported("MapUpdate on %T", m)
		}
		if mm == nil {
			panic(goPanic{v: in.mkStr("assignment to entry in nil map"), msg: "assignment to entry in nil map in " + fr.fn.String()})
		}
		in.mapSet(mm, fr.get(instr.Key), copyVal(fr.get(instr.Value)))
	case *ssa.TypeAssert:
		fr.set(instr, in.typeAssert(fr, instr, fr.get(instr.X)))
	case *ssa.MakeClosure:
		var bindings []Value
		for _, b := range instr.Bindings {
			bindings = append(bindings, fr.get(b))
		}
		fr.set(instr, &Closure{instr.Fn.(*ssa.Function), bindings})
	case *ssa.Phi:
		panic("phi")
	case *ssa.Select:
		fr.set(instr, in.selectStmt(fr, instr))
	default:
		in.unsupported("instruction %T", instr)
	}
	return kNext
}

func (in *Interp) panicText(v Value) string {
	switch v := v.(type) {
	case Iface:
		if s, ok := v.v.(Str); ok {
			return s.show()
		}
		if v.t != nil {
			return "value of type " + v.t.String()
		}
		return "nil"
	case Str:
		return v.show()
	}
	return fmt.Sprintf("%T", v)
}

func (in *Interp) concreteInt(v Value, what string) int {
	t, ok := v.(*T)
	if !ok {
		in.unsupported("%s is %T", what, v)
	}
	if !t.IsConst() {
		// fork over small ranges is the caller's business; shapes must be concrete
		in.unsupported("symbolic %s (memory shape must be concrete)", what)
	}
	return int(sext64(t.k, t.w))
}

func (in *Interp) to64(v *T, ty types.Type) *T {
	if v.w == 64 {
		return v
	}
	if isSigned(ty) {
		return in.tb.SExt(v, 64)
	}
	return in.tb.ZExt(v, 64)
}

// indexIn checks 0 <= idx < n (panicking path otherwise) and returns a concrete index.
func (in *Interp) indexIn(fr *frame, idx Value, ity types.Type, n int, concretize bool) int {
	t, ok := idx.(*T)
	if !ok {
		in.unsupported("index is %T", idx)
	}
	t = in.to64(t, ity)
	if t.IsConst() {
		i := int64(t.k)
		if i < 0 || i >= int64(n) {
			fr.rtPanic(fmt.Sprintf("index out of range [%d] with length %d", i, n))
		}
		return int(i)
	}
	inb := in.tb.ULt(t, in.tb.BV(64, uint64(n)))
	if !in.branchTrue(inb) {
		fr.rtPanic(fmt.Sprintf("index out of range [symbolic] with length %d", n))
	}
	if n > in.cfg.MaxConcretize {
		in.unsupported("symbolic index into %d elements in %s", n, fr.fn)
	}
	return in.concretize(t, n)
}

// indexValue reads arr[idx] as a value; symbolic idx over scalar elements becomes an ite-chain.
func (in *Interp) indexValue(fr *frame, arr []Value, idx Value, ity types.Type) Value {
	t := idx.(*T)
	t = in.to64(t, ity)
	if !t.IsConst() && len(arr) > 0 && len(arr) <= 256 {
		if _, ok := arr[0].(*T); ok {
			inb := in.tb.ULt(t, in.tb.BV(64, uint64(len(arr))))
			if !in.branchTrue(inb) {
				fr.rtPanic("index out of range [symbolic]")
			}
			res := arr[len(arr)-1].(*T)
			for i := len(arr) - 2; i >= 0; i-- {
				res = in.tb.Ite(in.tb.Eq(t, in.tb.BV(64, uint64(i))), arr[i].(*T), res)
			}
			return res
		}
	}
	i := in.indexIn(fr, idx, ity, len(arr), true)
	return copyVal(arr[i])
}

func (in *Interp) strIndex(fr *frame, s Str, idx Value, ity types.Type) Value {
	if s.opaque {
		in.unsupported("indexing an opaque (formatted) string %s", s.otag)
	}
	arr := make([]Value, len(s.b))
	for i, b := range s.b {
		arr[i] = b
	}
	return in.indexValue(fr, arr, idx, ity)
}

func (fr *frame) prepareCall(call *ssa.CallCommon) (fn Value, args []Value) {
	v := fr.get(call.Value)
	if call.Method == nil {
		fn = v
	} else {
		if p, ok := v.(Poison); ok {
			return p, nil
		}
		recv := v.(Iface)
		if recv.t == nil {
			fr.rtPanic("method " + call.Method.Name() + " invoked on nil interface")
		}
		if bm, ok := recv.v.(*builtinObj); ok {
			fn = &boundBuiltin{obj: bm, method: call.Method.Name()}
		} else {
			f := fr.in.prog.LookupMethod(recv.t, call.Method.Pkg(), call.Method.Name())
			if f == nil {
				fr.in.unsupported("method set of %v lacks %s", recv.t, call.Method)
			}
			fn = f
			args = append(args, recv.v)
		}
	}
	for _, a := range call.Args {
		args = append(args, fr.get(a))
	}
	return
}

func (in *Interp) call(caller *frame, fn Value, args []Value) Value {
	switch fn := fn.(type) {
	case *ssa.Function:
		if fn == nil {
			if caller != nil {
				caller.rtPanic("call of nil function")
			}
			panic("call of nil function")
		}
		return in.callFunc(caller, fn, args, nil)
	case *Closure:
		return in.callFunc(caller, fn.Fn, args, fn.Env)
	case *ssa.Builtin:
		return in.callBuiltin(caller, fn, args)
	case *boundBuiltin:
		return fn.obj.call(in, caller, fn.method, args)
	case Poison:
		if in.initMode > 0 {
			return fn
		}
		return Poison{"call through " + fn.why}
	}
	in.unsupported("call of %T", fn)
	return nil
}

func fullName(fn *ssa.Function) string {
	if o := fn.Origin(); o != nil {
		fn = o
	}
	return fn.String()
}

func (in *Interp) callFunc(caller *frame, fn *ssa.Function, args []Value, env []Value) Value {
	name := fullName(fn)
	if r, ok := in.sh.redirect[name]; ok && r != fn {
		// a harness-provided replacement with the same parameter list (receiver first)
		return in.callSSA(caller, r, args, nil)
	}
	if o, ok := in.sh.observe[name]; ok && o != fn {
		in.callSSA(caller, o, args, nil)
	}
	if name == "strconv.ParseUint" && len(args) == 3 {
		if s, ok := args[0].(Str); ok && s.num != nil {
			return Tuple{s.num, Iface{}}
		}
	}
	if mname, ok := modelRedirects[name]; ok && in.initMode == 0 {
		if p := in.prog.ImportedPackage(rtPkg); p != nil {
			if mf := p.Func(mname); mf != nil {
				return in.callSSA(caller, mf, args, nil)
			}
		}
	}
	if h, ok := intrinsics[name]; ok {
		return h(in, caller, fn, args)
	}
	if fn.Pkg != nil || (fn.Origin() != nil && fn.Origin().Pkg != nil) || fn.Object() != nil {
		var path string
		if fn.Pkg != nil {
			path = fn.Pkg.Pkg.Path()
		} else if fn.Object() != nil && fn.Object().Pkg() != nil {
			path = fn.Object().Pkg().Path()
		}
		if path != "" {
			if h, ok := pkgIntrinsics[path]; ok {
				if r, handled := h(in, caller, fn, args); handled {
					return r
				}
			}
			if deniedPkg(path) {
				return in.poisonResult(fn.Signature, "stubbed "+name)
			}
			if fn.Name() == "init" && fn.Signature.Recv() == nil && in.initMode > 0 && caller != nil && caller.fn.Name() == "init" && caller.fn.Pkg != fn.Pkg {
				// initialisers of imported packages are run lazily
				return nil
			}
		}
	}
	return in.callSSA(caller, fn, args, env)
}

// ---------------------------------------------------------------- builtins

func (in *Interp) callBuiltin(caller *frame, fn *ssa.Builtin, args []Value) Value {
	switch fn.Name() {
	case "append":
		if len(args) == 1 {
			return args[0]
		}
		var src []Value
		switch s := args[1].(type) {
		case Str:
			if s.opaque {
				in.unsupported("append of opaque string")
			}
			src = make([]Value, len(s.b))
			for i, b := range s.b {
				src[i] = b
			}
		case []Value:
			src = s
		default:
			in.unsupported("append %T", s)
		}
		dst := args[0].([]Value)
		if len(src) == 0 {
			return dst
		}
		// Go's append: reuse capacity if possible, else grow (amortised doubling as in the runtime is not
		// observable except through cap(); we grow to exactly max(2*cap, needed)).
		need := len(dst) + len(src)
		if need <= cap(dst) {
			res := dst[:need]
			for i, v := range src {
				res[len(dst)+i] = copyVal(v)
			}
			return res
		}
		nc := 2 * cap(dst)
		if nc < need {
			nc = need
		}
		res := make([]Value, need, nc)
		copy(res, dst)
		for i, v := range src {
			res[len(dst)+i] = copyVal(v)
		}
		// zero-fill the spare capacity lazily: use the element zero from an existing element
		if nc > need {
			var z Value
			if len(res) > 0 {
				z = in.zeroLike(res[0])
			}
			for i := need; i < nc; i++ {
				res[:nc][i] = z
			}
		}
		return res
	case "copy":
		dst := args[0].([]Value)
		var n int
		switch s := args[1].(type) {
		case Str:
			if s.opaque {
				in.unsupported("copy of opaque string")
			}
			n = len(s.b)
			if len(dst) < n {
				n = len(dst)
			}
			for i := 0; i < n; i++ {
				dst[i] = s.b[i]
			}
		case []Value:
			n = len(s)
			if len(dst) < n {
				n = len(dst)
			}
			// memmove semantics
			tmp := make([]Value, n)
			for i := 0; i < n; i++ {
				tmp[i] = copyVal(s[i])
			}
			copy(dst, tmp)
		}
		return in.tb.BV(64, uint64(n))
	case "close":
		c := args[0].(*Chan)
		c.closed = true
		return nil
	case "delete":
		m := args[0].(*Map)
		if m != nil {
			in.mapDelete(m, args[1])
		}
		return nil
	case "print", "println":
		return nil
	case "len":
		switch x := args[0].(type) {
		case Str:
			if x.opaque {
				in.unsupported("len of opaque string %s", x.otag)
			}
			return in.tb.BV(64, uint64(len(x.b)))
		case Array:
			return in.tb.BV(64, uint64(len(x)))
		case *Value:
			if x == nil {
				return in.tb.BV(64, 0)
			}
			return in.tb.BV(64, uint64(len((*x).(Array))))
		case []Value:
			return in.tb.BV(64, uint64(len(x)))
		case *Map:
			if x == nil {
				return in.tb.BV(64, 0)
			}
			return in.tb.BV(64, uint64(x.n))
		case *Chan:
			if x == nil {
				return in.tb.BV(64, 0)
			}
			return in.tb.BV(64, uint64(len(x.buf)))
		default:
			in.unsupported("len(%T)", x)
		}
	case "cap":
		switch x := args[0].(type) {
		case Array:
			return in.tb.BV(64, uint64(len(x)))
		case *Value:
			return in.tb.BV(64, uint64(len((*x).(Array))))
		case []Value:
			return in.tb.BV(64, uint64(cap(x)))
		case *Chan:
			return in.tb.BV(64, uint64(x.cap))
		default:
			in.unsupported("cap(%T)", x)
		}
	case "min", "max":
		res := args[0].(*T)
		signed := isSigned(fn.Type().(*types.Signature).Params().At(0).Type())
		for _, a := range args[1:] {
			at := a.(*T)
			var lt *T
			if signed {
				lt = in.tb.SLt(at, res)
			} else {
				lt = in.tb.ULt(at, res)
			}
			if fn.Name() == "max" {
				lt = in.tb.Not(in.tb.Or(lt, in.tb.Eq(at, res)))
			}
			res = in.tb.Ite(lt, at, res)
		}
		return res
	case "panic":
		panic(goPanic{v: args[0], msg: "panic: " + in.panicText(args[0])})
	case "recover":
		return in.doRecover(caller)
	case "ssa:wrapnilchk":
		recv := args[0]
		if isNilPtr(recv) {
			caller.rtPanic("value method called using nil pointer")
		}
		return recv
	case "String": // unsafe.String(ptr, len)
		return in.unsafeString(caller, args)
	case "StringData", "SliceData":
		return in.unsafeData(caller, args[0])
	case "Slice":
		return in.unsafeSlice(caller, args)
	}
	in.unsupported("builtin %s", fn.Name())
	return nil
}

func (in *Interp) zeroLike(v Value) Value {
	switch v := v.(type) {
	case *T:
		if v.w == 0 {
			return in.tb.fls
		}
		return in.tb.BV(v.w, 0)
	case Str:
		return Str{}
	case Struct:
		s := make(Struct, len(v))
		for i := range v {
			s[i] = in.zeroLike(v[i])
		}
		return s
	case Array:
		s := make(Array, len(v))
		for i := range v {
			s[i] = in.zeroLike(v[i])
		}
		return s
	case *Value:
		return (*Value)(nil)
	case []Value:
		return []Value(nil)
	case Iface:
		return Iface{}
	case *Map:
		return (*Map)(nil)
	case *Chan:
		return (*Chan)(nil)
	case F64:
		return F64(0)
	case F32:
		return F32(0)
	case *ssa.Function, *Closure:
		return (*ssa.Function)(nil)
	case UPtr:
		return UPtr{}
	}
	return nil
}

func (in *Interp) doRecover(caller *frame) Value {
	// recover() is called from a deferred function; the panicking frame is its caller.
	if caller != nil && caller.caller != nil {
		p := caller.caller
		if p.panicking {
			p.panicking = false
			if gp, ok := p.panicv.(goPanic); ok {
				switch v := gp.v.(type) {
				case Iface:
					return v
				case Str:
					// runtime error value
					return Iface{t: types.Typ[types.String], v: v}
				default:
					return Iface{t: types.Typ[types.String], v: in.mkStr(gp.msg)}
				}
			}
		}
	}
	return Iface{}
}

// ---------------------------------------------------------------- slices

func (in *Interp) slice(fr *frame, instr *ssa.Slice, x, lo, hi, max Value) Value {
	var Len, Cap int
	var arr []Value
	switch x := x.(type) {
	case Str:
		if x.opaque {
			in.unsupported("slicing an opaque string")
		}
		Len, Cap = len(x.b), len(x.b)
	case []Value:
		Len, Cap = len(x), cap(x)
		arr = x
	case *Value:
		if x == nil {
			fr.rtPanic("slice of nil array pointer")
		}
		a := (*x).(Array)
		arr = []Value(a)
		Len, Cap = len(a), len(a)
	default:
		in.unsupported("slice of %T", x)
	}
	l := 0
	if lo != nil {
		l = in.sliceBound(fr, lo, instr.Low.Type(), Cap)
	}
	h := Len
	if hi != nil {
		h = in.sliceBound(fr, hi, instr.High.Type(), Cap)
	}
	m := Cap
	if max != nil {
		m = in.sliceBound(fr, max, instr.Max.Type(), Cap)
	}
	if s, ok := x.(Str); ok {
		if l > h || h > Len {
			fr.rtPanic(fmt.Sprintf("slice bounds out of range [%d:%d] with length %d", l, h, Len))
		}
		return Str{b: s.b[l:h]}
	}
	if l > h || h > m || m > Cap {
		fr.rtPanic(fmt.Sprintf("slice bounds out of range [%d:%d:%d] with capacity %d", l, h, m, Cap))
	}
	if arr == nil {
		return []Value(nil)
	}
	return arr[l:h:m]
}

// sliceBound returns a concrete slice bound; symbolic bounds are concretised over [0,cap].
func (in *Interp) sliceBound(fr *frame, v Value, ty types.Type, capv int) int {
	t, ok := v.(*T)
	if !ok {
		in.unsupported("slice bound %T", v)
	}
	t = in.to64(t, ty)
	if t.IsConst() {
		i := int64(t.k)
		if i < 0 || i > int64(capv) {
			fr.rtPanic(fmt.Sprintf("slice bounds out of range [%d] with capacity %d", i, capv))
		}
		return int(i)
	}
	inb := in.tb.ULe(t, in.tb.BV(64, uint64(capv)))
	if !in.branchTrue(inb) {
		fr.rtPanic(fmt.Sprintf("slice bounds out of range [symbolic] with capacity %d", capv))
	}
	if capv+1 > in.cfg.MaxConcretize {
		in.unsupported("symbolic slice bound over capacity %d in %s", capv, fr.fn)
	}
	return in.concretize(t, capv+1)
}

// ---------------------------------------------------------------- maps

func (in *Interp) valueEq(a, b Value) *T {
	tb := in.tb
	switch a := a.(type) {
	case *T:
		return tb.Eq(a, b.(*T))
	case Str:
		bs := b.(Str)
		if a.num != nil || bs.num != nil {
			// decimal renderings are injective
			if a.num != nil && bs.num != nil {
				return tb.Eq(a.num, bs.num)
			}
			n, o := a, bs
			if n.num == nil {
				n, o = bs, a
			}
			if c, ok := o.concrete(); ok {
				if v, err := strconv.ParseUint(c, 10, 64); err == nil && strconv.FormatUint(v, 10) == c {
					return tb.Eq(n.num, tb.BV(64, v))
				}
				return tb.fls
			}
			in.unsupported("comparison of a numeric string with a symbolic string")
		}
		if a.opaque || bs.opaque {
			if a.opaque && bs.opaque && a.otag == bs.otag {
				return tb.tru
			}
			in.unsupported("comparison of opaque string %s%s", a.otag, bs.otag)
		}
		if len(a.b) != len(bs.b) {
			return tb.fls
		}
		r := tb.tru
		for i := range a.b {
			r = tb.And(r, tb.Eq(a.b[i], bs.b[i]))
			if r == tb.fls {
				return r
			}
		}
		return r
	case *Value:
		return tb.Bool(a == b.(*Value))
	case Iface:
		bi := b.(Iface)
		if a.t == nil || bi.t == nil {
			return tb.Bool(a.t == nil && bi.t == nil)
		}
		if !types.Identical(a.t, bi.t) {
			return tb.fls
		}
		return in.valueEq(a.v, bi.v)
	case Struct:
		bs := b.(Struct)
		r := tb.tru
		for i := range a {
			r = tb.And(r, in.valueEq(a[i], bs[i]))
		}
		return r
	case Array:
		bs := b.(Array)
		r := tb.tru
		for i := range a {
			r = tb.And(r, in.valueEq(a[i], bs[i]))
		}
		return r
	case *Map:
		return tb.Bool(a == b.(*Map))
	case *Chan:
		return tb.Bool(a == b.(*Chan))
	case F64:
		return tb.Bool(a == b.(F64))
	case F32:
		return tb.Bool(a == b.(F32))
	case UPtr:
		return tb.Bool(a.v == b.(UPtr).v)
	case []Value:
		// only comparison with nil is legal
		bs := b.([]Value)
		return tb.Bool((a == nil) == (bs == nil) && (a == nil || bs == nil))
	case *ssa.Function:
		if bf, ok := b.(*ssa.Function); ok {
			return tb.Bool(a == bf)
		}
		return tb.Bool(a == nil && b == nil)
	case *Closure:
		if bf, ok := b.(*ssa.Function); ok && bf == nil {
			return tb.fls
		}
		return tb.Bool(a == b)
	case *builtinObj:
		bo, ok := b.(*builtinObj)
		return tb.Bool(ok && a == bo)
	case Poison:
		in.unsupported("comparison of stubbed value (%s)", a.why)
	}
	in.unsupported("valueEq %T", a)
	return nil
}

// mapFind returns the position of key in m, or -1; symbolic keys fork on equality.
func (in *Interp) mapFind(m *Map, key Value) int {
	if ck, ok := canonKey(key); ok && m.index != nil {
		if i, ok := m.index[ck]; ok {
			return i
		}
		return -1
	}
	for i := range m.keys {
		if m.dead[i] {
			continue
		}
		eq := in.valueEq(key, m.keys[i])
		if in.branch(eq) {
			return i
		}
	}
	return -1
}

func (in *Interp) mapSet(m *Map, key, val Value) {
	i := in.mapFind(m, key)
	if i >= 0 {
		m.vals[i] = val
		return
	}
	m.keys = append(m.keys, copyVal(key))
	m.vals = append(m.vals, val)
	m.dead = append(m.dead, false)
	m.n++
	if ck, ok := canonKey(key); ok && m.index != nil {
		m.index[ck] = len(m.keys) - 1
	} else {
		m.index = nil // symbolic key present: linear search with equality forks from now on
	}
}

func (in *Interp) mapDelete(m *Map, key Value) {
	i := in.mapFind(m, key)
	if i < 0 {
		return
	}
	m.dead[i] = true
	m.n--
	if m.index != nil {
		if ck, ok := canonKey(m.keys[i]); ok {
			delete(m.index, ck)
		}
	}
}

func (in *Interp) lookup(fr *frame, instr *ssa.Lookup, x, idx Value) Value {
	switch x := x.(type) {
	case *Map:
		var v Value
		found := false
		if x != nil {
			if i := in.mapFind(x, idx); i >= 0 {
				v = copyVal(x.vals[i])
				found = true
			}
		}
		if !found {
			v = in.zero(instr.X.Type().Underlying().(*types.Map).Elem())
		}
		if instr.CommaOk {
			return Tuple{v, in.tb.Bool(found)}
		}
		return v
	case Str:
		return in.strIndex(fr, x, idx, instr.Index.Type())
	case Poison:
		in.unsupported("lookup in stubbed value (%s)", x.why)
	}
	in.unsupported("lookup in %T", x)
	return nil
}

// ---------------------------------------------------------------- range

type iterator interface {
	next(fr *frame) Value
}

type mapIter struct {
	in    *Interp
	m     *Map
	order []int
	i     int
}

func (it *mapIter) next(fr *frame) Value {
	for it.i < len(it.order) {
		p := it.order[it.i]
		it.i++
		if it.m.dead[p] {
			continue // deleted during iteration
		}
		return Tuple{it.in.tb.tru, it.m.keys[p], copyVal(it.m.vals[p])}
	}
	return Tuple{it.in.tb.fls, nil, nil}
}

type strIter struct {
	in  *Interp
	s   Str
	pos int
}

func (it *strIter) next(fr *frame) Value {
	in := it.in
	if it.pos >= len(it.s.b) {
		return Tuple{in.tb.fls, in.tb.BV(64, 0), in.tb.BV(32, 0)}
	}
	b0 := it.s.b[it.pos]
	start := it.pos
	if b0.IsConst() && b0.k < 0x80 {
		it.pos++
		return Tuple{in.tb.tru, in.tb.BV(64, uint64(start)), in.tb.BV(32, b0.k)}
	}
	if !b0.IsConst() {
		// symbolic lead byte: ASCII stays symbolic; otherwise run the real utf8 decoder symbolically
		if in.branch(in.tb.ULt(b0, in.tb.BV(8, 0x80))) {
			it.pos++
			return Tuple{in.tb.tru, in.tb.BV(64, uint64(start)), in.tb.ZExt(b0, 32)}
		}
		return it.decodeSym(fr, start)
	}
	for j := it.pos; j < len(it.s.b) && j < it.pos+4; j++ {
		if !it.s.b[j].IsConst() {
			return it.decodeSym(fr, start)
		}
	}
	// concrete non-ASCII: decode with Go
	rest := make([]byte, 0, 4)
	for j := it.pos; j < len(it.s.b) && j < it.pos+4; j++ {
		if !it.s.b[j].IsConst() {
			in.unsupported("range over string: symbolic continuation byte")
		}
		rest = append(rest, byte(it.s.b[j].k))
	}
	r, size := decodeRune(rest)
	it.pos += size
	return Tuple{in.tb.tru, in.tb.BV(64, uint64(start)), in.tb.BV(32, uint64(r))}
}

func (it *strIter) decodeSym(fr *frame, start int) Value {
	in := it.in
	p := in.prog.ImportedPackage("unicode/utf8")
	if p == nil {
		in.unsupported("range over a symbolic non-ASCII string (unicode/utf8 not loaded)")
	}
	r := in.call(fr, p.Func("DecodeRuneInString"), []Value{Str{b: it.s.b[it.pos:]}}).(Tuple)
	size := in.concreteInt(r[1], "rune size")
	it.pos += size
	return Tuple{in.tb.tru, in.tb.BV(64, uint64(start)), r[0]}
}

func decodeRune(b []byte) (rune, int) {
	for i, r := range string(b) {
		_ = i
		n := len(string(r))
		if r == 0xFFFD {
			// could be an invalid byte (width 1) or a real U+FFFD (width 3)
			if len(b) >= 3 && b[0] == 0xEF && b[1] == 0xBF && b[2] == 0xBD {
				return r, 3
			}
			return r, 1
		}
		return r, n
	}
	return 0xFFFD, 1
}

func (in *Interp) rangeIter(fr *frame, x Value, t types.Type) iterator {
	switch x := x.(type) {
	case *Map:
		it := &mapIter{in: in, m: x}
		if x == nil {
			it.m = &Map{}
			return it
		}
		var order []int
		for i := range x.keys {
			if !x.dead[i] {
				order = append(order, i)
			}
		}
		if in.cfg.PermuteMaps > 0 && len(order) > 1 && len(order) <= in.cfg.PermuteMaps && in.initMode == 0 {
			// nondeterministic iteration order: choose a permutation
			rem := append([]int(nil), order...)
			order = order[:0]
			for len(rem) > 0 {
				k := in.choice(len(rem))
				order = append(order, rem[k])
				rem = append(rem[:k], rem[k+1:]...)
			}
		}
		it.order = order
		return it
	case Str:
		if x.opaque {
			in.unsupported("range over opaque string")
		}
		return &strIter{in: in, s: x}
	}
	in.unsupported("range over %T", x)
	return nil
}

// ---------------------------------------------------------------- type assertions

func (in *Interp) typeAssert(fr *frame, instr *ssa.TypeAssert, x Value) Value {
	if p, ok := x.(Poison); ok {
		in.unsupported("type assertion on stubbed value (%s)", p.why)
	}
	itf := x.(Iface)
	var v Value
	err := ""
	if idst, ok := instr.AssertedType.Underlying().(*types.Interface); ok && !isTypeParam(instr.AssertedType) {
		v = itf
		if itf.t == nil {
			err = "interface conversion: interface is nil"
		} else if !in.implements(itf, idst) {
			err = fmt.Sprintf("interface conversion: %v does not implement %v", itf.t, instr.AssertedType)
		}
	} else {
		if itf.t == nil {
			err = "interface conversion: interface is nil, not " + instr.AssertedType.String()
		} else if types.Identical(itf.t, instr.AssertedType) {
			v = itf.v
		} else {
			err = fmt.Sprintf("interface conversion: interface is %v, not %v", itf.t, instr.AssertedType)
		}
	}
	if err != "" {
		if !instr.CommaOk {
			fr.rtPanic(err)
		}
		return Tuple{in.zero(instr.AssertedType), in.tb.fls}
	}
	if instr.CommaOk {
		return Tuple{v, in.tb.tru}
	}
	return v
}

func isTypeParam(t types.Type) bool {
	_, ok := t.(*types.TypeParam)
	return ok
}

func (in *Interp) implements(itf Iface, idst *types.Interface) bool {
	if _, ok := itf.v.(*builtinObj); ok {
		return true
	}
	return types.Implements(itf.t, idst)
}

// ---------------------------------------------------------------- channels & goroutines (restricted)

func (in *Interp) goStmt(fr *frame, fn Value, args []Value) {
	// restricted model: the goroutine runs to completion at the spawn point
	in.call(fr, fn, args)
}

func (in *Interp) chanSend(fr *frame, c Value, v Value) {
	ch, ok := c.(*Chan)
	if !ok || ch == nil {
		in.unsupported("send on %T/nil channel", c)
	}
	if ch.closed {
		panic(goPanic{v: in.mkStr("send on closed channel"), msg: "send on closed channel"})
	}
	// unbuffered channels are treated as unbounded queues drained by the spawner (restricted model)
	ch.buf = append(ch.buf, copyVal(v))
}

func (in *Interp) chanRecv(fr *frame, c Value, et types.Type, commaOk bool) Value {
	ch, ok := c.(*Chan)
	if !ok || ch == nil {
		in.unsupported("receive on %T/nil channel", c)
	}
	if len(ch.buf) == 0 {
		if ch.closed || ch.timer {
			z := in.zero(et)
			if commaOk {
				return Tuple{z, in.tb.Bool(ch.timer)}
			}
			return z
		}
		in.unsupported("receive on an empty channel would block (single-goroutine model) in %s", fr.fn)
	}
	k := 0
	if in.cfg.ChanAnyOrder && len(ch.buf) > 1 {
		k = in.choice(len(ch.buf))
	}
	v := ch.buf[k]
	ch.buf = append(ch.buf[:k:k], ch.buf[k+1:]...)
	if commaOk {
		return Tuple{v, in.tb.tru}
	}
	return v
}

func (in *Interp) selectStmt(fr *frame, instr *ssa.Select) Value {
	// ready cases: receives on non-empty/closed channels, timer channels (may fire), sends always
	type cand struct{ idx int }
	var ready []int
	for i, st := range instr.States {
		ch, _ := fr.get(st.Chan).(*Chan)
		if ch == nil {
			continue
		}
		if st.Dir == types.RecvOnly {
			if len(ch.buf) > 0 || ch.closed || ch.timer {
				ready = append(ready, i)
			}
		} else {
			ready = append(ready, i)
		}
	}
	chosen := -1
	if len(ready) == 0 {
		if instr.Blocking {
			in.unsupported("select would block (single-goroutine model) in %s", fr.fn)
		}
	} else if len(ready) == 1 {
		chosen = ready[0]
	} else {
		chosen = ready[in.choice(len(ready))]
	}
	r := Tuple{in.tb.BV(64, uint64(int64(chosen))), in.tb.fls}
	for i, st := range instr.States {
		if st.Dir == types.RecvOnly {
			et := st.Chan.Type().Underlying().(*types.Chan).Elem()
			if i == chosen {
				rv := in.chanRecv(fr, fr.get(st.Chan), et, true).(Tuple)
				r[1] = rv[1]
				r = append(r, rv[0])
			} else {
				r = append(r, in.zero(et))
			}
		} else if i == chosen {
			in.chanSend(fr, fr.get(st.Chan), fr.get(st.Send))
		}
	}
	return r
}

var _ = token.ADD


// initTimeTables: package time's initialisers are not run (they read the environment and the zone database),
// but its pure lookup tables are needed by time.Parse / time.ParseDuration / time.Date on concrete strings:
// daysBefore, std0x and unitMap get the values their declarations give them. Constants are read from the
// type-checked package so that they follow the installed Go release.
func (in *Interp) initTimeTables(pkg *ssa.Package) {
	tb := in.tb
	set := func(name string, v Value) {
		g, ok := pkg.Members[name].(*ssa.Global)
		if !ok {
			return
		}
		if p, ok := in.globals[g]; ok {
			*p = v
		}
	}
	days := []uint64{0, 31, 59, 90, 120, 151, 181, 212, 243, 273, 304, 334, 365}
	if g, ok := pkg.Members["daysBefore"].(*ssa.Global); ok {
		if at, ok := deref(g.Type()).Underlying().(*types.Array); ok && at.Len() == int64(len(days)) {
			arr := make(Array, len(days))
			for i, d := range days {
				arr[i] = tb.BV(32, d)
			}
			set("daysBefore", arr)
		}
	}
	var std []Value
	for _, n := range []string{"stdZeroMonth", "stdZeroDay", "stdZeroHour12", "stdZeroMinute", "stdZeroSecond", "stdYear"} {
		c, ok := pkg.Pkg.Scope().Lookup(n).(*types.Const)
		if !ok {
			std = nil
			break
		}
		v, _ := constant.Int64Val(c.Val())
		std = append(std, tb.BV(64, uint64(v)))
	}
	if g, ok := pkg.Members["std0x"].(*ssa.Global); ok && std != nil {
		if at, ok := deref(g.Type()).Underlying().(*types.Array); ok && at.Len() == int64(len(std)) {
			set("std0x", Array(std))
		}
	}
	// UTC = &utcLoc, utcLoc.name = "UTC" (setLoc turns &utcLoc into the nil location, as in the library)
	if ug, ok := pkg.Members["utcLoc"].(*ssa.Global); ok {
		if up, ok := in.globals[ug]; ok {
			if st, ok := (*up).(Struct); ok && len(st) > 0 {
				if _, isStr := st[0].(Str); isStr {
					st[0] = in.mkStr("UTC")
					set("UTC", up)
				}
			}
		}
	}
	if g, ok := pkg.Members["unitMap"].(*ssa.Global); ok {
		if mt, ok := deref(g.Type()).Underlying().(*types.Map); ok {
			m := newMap(mt.Key())
			for _, u := range []struct {
				k string
				v uint64
			}{{"ns", 1}, {"us", 1e3}, {"\u00b5s", 1e3}, {"\u03bcs", 1e3}, {"ms", 1e6}, {"s", 1e9}, {"m", 60e9}, {"h", 3600e9}} {
				in.mapSet(m, in.mkStr(u.k), tb.BV(64, u.v))
			}
			set("unitMap", m)
		}
	}
}
