package main

import (
	"fmt"
	"go/token"
	"go/types"
	"math"
	"math/bits"
	"unicode/utf8"

	"golang.org/x/tools/go/ssa"
)

func (in *Interp) unop(fr *frame, instr *ssa.UnOp, x Value) Value {
	tb := in.tb
	switch instr.Op {
	case token.ARROW:
		return in.chanRecv(fr, x, instr.X.Type().Underlying().(*types.Chan).Elem(), instr.CommaOk)
	case token.MUL: // load
		if sp, isSym := x.(*SymPtr); isSym {
			res := sp.arr[len(sp.arr)-1].(*T)
			for i := len(sp.arr) - 2; i >= 0; i-- {
				res = tb.Ite(tb.Eq(sp.idx, tb.BV(64, uint64(i))), sp.arr[i].(*T), res)
			}
			return res
		}
		p, ok := x.(*Value)
		if !ok {
			if po, ok := x.(Poison); ok {
				return Poison{"load through " + po.why}
			}
			in.unsupported("load through %T in %s", x, fr.fn)
		}
		if p == nil {
			fr.rtPanic("invalid memory address or nil pointer dereference")
		}
		return copyVal(*p)
	case token.SUB:
		switch x := x.(type) {
		case *T:
			return tb.Neg(x)
		case F64:
			return -x
		case F32:
			return -x
		}
	case token.NOT:
		if t, ok := x.(*T); ok {
			return tb.Not(t)
		}
	case token.XOR:
		if t, ok := x.(*T); ok {
			return tb.BNot(t)
		}
	}
	if p, ok := x.(Poison); ok {
		in.unsupported("unary %s on stubbed value (%s)", instr.Op, p.why)
	}
	in.unsupported("unop %s on %T", instr.Op, x)
	return nil
}

func (in *Interp) binop(fr *frame, op token.Token, t types.Type, x, y Value) Value {
	tb := in.tb
	switch op {
	case token.EQL:
		return in.eqlVals(fr, x, y)
	case token.NEQ:
		return tb.Not(in.eqlVals(fr, x, y))
	}
	switch xv := x.(type) {
	case *T:
		yv, ok := y.(*T)
		if !ok {
			in.unsupported("binop %s: %T vs %T", op, x, y)
		}
		if xv.w == 0 {
			switch op {
			case token.AND, token.LAND:
				return tb.And(xv, yv)
			case token.OR, token.LOR:
				return tb.Or(xv, yv)
			case token.XOR:
				return tb.Not(tb.Eq(xv, yv))
			}
			in.unsupported("bool binop %s", op)
		}
		signed := isSigned(t)
		switch op {
		case token.ADD:
			return tb.Add(xv, yv)
		case token.SUB:
			return tb.Sub(xv, yv)
		case token.MUL:
			return tb.Mul(xv, yv)
		case token.QUO, token.REM:
			nz := tb.Not(tb.Eq(yv, tb.BV(yv.w, 0)))
			if !in.branchTrue(nz) {
				fr.rtPanic("integer divide by zero")
			}
			if q, r, ok := in.divmodConst(xv, yv, signed); ok {
				if op == token.QUO {
					return q
				}
				return r
			}
			if signed {
				if op == token.QUO {
					return tb.SDiv(xv, yv)
				}
				return tb.SRem(xv, yv)
			}
			if op == token.QUO {
				return tb.UDiv(xv, yv)
			}
			return tb.URem(xv, yv)
		case token.AND:
			return tb.BAnd(xv, yv)
		case token.OR:
			return tb.BOr(xv, yv)
		case token.XOR:
			return tb.BXor(xv, yv)
		case token.AND_NOT:
			return tb.BAnd(xv, tb.BNot(yv))
		case token.SHL, token.SHR:
			// y has its own type; normalise the count to x's width, saturating
			cnt := yv
			if cnt.w > xv.w {
				big := tb.ULe(tb.BV(cnt.w, uint64(xv.w)), cnt)
				cnt = tb.Ite(big, tb.BV(xv.w, uint64(xv.w)), tb.Extract(cnt, xv.w-1, 0))
			} else if cnt.w < xv.w {
				cnt = tb.ZExt(cnt, xv.w)
			}
			if op == token.SHL {
				return tb.Shl(xv, cnt)
			}
			if signed {
				return tb.AShr(xv, cnt)
			}
			return tb.LShr(xv, cnt)
		case token.LSS:
			if signed {
				return tb.SLt(xv, yv)
			}
			return tb.ULt(xv, yv)
		case token.LEQ:
			if signed {
				return tb.SLe(xv, yv)
			}
			return tb.ULe(xv, yv)
		case token.GTR:
			if signed {
				return tb.SLt(yv, xv)
			}
			return tb.ULt(yv, xv)
		case token.GEQ:
			if signed {
				return tb.SLe(yv, xv)
			}
			return tb.ULe(yv, xv)
		}
	case F64:
		yv, ok := y.(F64)
		if !ok {
			in.unsupported("float binop with %T", y)
		}
		switch op {
		case token.ADD:
			return xv + yv
		case token.SUB:
			return xv - yv
		case token.MUL:
			return xv * yv
		case token.QUO:
			return xv / yv
		case token.LSS:
			return tb.Bool(xv < yv)
		case token.LEQ:
			return tb.Bool(xv <= yv)
		case token.GTR:
			return tb.Bool(xv > yv)
		case token.GEQ:
			return tb.Bool(xv >= yv)
		}
	case F32:
		yv, ok := y.(F32)
		if !ok {
			in.unsupported("float32 binop with %T", y)
		}
		switch op {
		case token.ADD:
			return xv + yv
		case token.SUB:
			return xv - yv
		case token.MUL:
			return xv * yv
		case token.QUO:
			return xv / yv
		case token.LSS:
			return tb.Bool(xv < yv)
		case token.LEQ:
			return tb.Bool(xv <= yv)
		case token.GTR:
			return tb.Bool(xv > yv)
		case token.GEQ:
			return tb.Bool(xv >= yv)
		}
	case Rat:
		return in.ratBinop(fr, op, xv, y)
	case Str:
		yv, ok := y.(Str)
		if !ok {
			in.unsupported("string binop with %T", y)
		}
		if xv.opaque || yv.opaque {
			if op == token.ADD {
				return Str{opaque: true, otag: xv.otag + yv.otag + "+"}
			}
			in.unsupported("comparison of opaque strings")
		}
		switch op {
		case token.ADD:
			b := make([]*T, 0, len(xv.b)+len(yv.b))
			b = append(b, xv.b...)
			b = append(b, yv.b...)
			return Str{b: b}
		case token.LSS:
			return in.strLess(xv, yv, false)
		case token.LEQ:
			return in.strLess(xv, yv, true)
		case token.GTR:
			return in.strLess(yv, xv, false)
		case token.GEQ:
			return in.strLess(yv, xv, true)
		}
	case Poison:
		in.unsupported("binop %s on stubbed value (%s) in %s", op, xv.why, fr.fn)
	}
	if _, ok := y.(Rat); ok {
		if xf, ok := x.(F64); ok {
			return in.ratBinop(fr, op, Rat{num: nil, f: float64(xf), isF: true}, y)
		}
	}
	in.unsupported("binop %s on %T,%T in %s", op, x, y, fr.fn)
	return nil
}

// strLess builds x < y (or x <= y) lexicographically for concrete-length strings.
func (in *Interp) strLess(x, y Str, orEq bool) *T {
	tb := in.tb
	n := len(x.b)
	if len(y.b) < n {
		n = len(y.b)
	}
	// result if all common bytes are equal
	var tail *T
	if len(x.b) < len(y.b) {
		tail = tb.tru
	} else if len(x.b) == len(y.b) {
		tail = tb.Bool(orEq)
	} else {
		tail = tb.fls
	}
	res := tail
	for i := n - 1; i >= 0; i-- {
		lt := tb.ULt(x.b[i], y.b[i])
		eq := tb.Eq(x.b[i], y.b[i])
		res = tb.Or(lt, tb.And(eq, res))
	}
	return res
}

func (in *Interp) eqlVals(fr *frame, x, y Value) *T {
	// nil-ness comparisons between differently represented values
	switch xv := x.(type) {
	case []Value:
		if yv, ok := y.([]Value); ok {
			if xv != nil && yv != nil {
				in.unsupported("slice comparison")
			}
			return in.tb.Bool(xv == nil && yv == nil)
		}
	case *ssa.Function, *Closure:
		xn := false
		if f, ok := x.(*ssa.Function); ok && f == nil {
			xn = true
		}
		yn := false
		if f, ok := y.(*ssa.Function); ok && f == nil {
			yn = true
		}
		return in.tb.Bool(xn && yn)
	case F64:
		if r, ok := y.(Rat); ok {
			return in.ratBinop(fr, token.EQL, Rat{f: float64(xv), isF: true}, r).(*T)
		}
	case Rat:
		return in.ratBinop(fr, token.EQL, xv, y).(*T)
	}
	return in.valueEq(x, y)
}

// ---------------------------------------------------------------- conversions

func (in *Interp) conv(fr *frame, tdst, tsrc types.Type, x Value) Value {
	tb := in.tb
	ud, us := tdst.Underlying(), tsrc.Underlying()
	if p, ok := x.(Poison); ok {
		return p
	}
	switch ud := ud.(type) {
	case *types.Pointer:
		// unsafe.Pointer -> *T
		if up, ok := x.(UPtr); ok {
			if up.v == nil {
				return (*Value)(nil)
			}
			if p, ok := up.v.(*Value); ok {
				return p
			}
			in.unsupported("unsafe.Pointer conversion to %v", tdst)
		}
		return x
	case *types.Slice:
		// string -> []byte / []rune
		if s, ok := x.(Str); ok {
			if s.opaque {
				in.unsupported("[]byte(opaque string %s)", s.otag)
			}
			eb := ud.Elem().Underlying().(*types.Basic)
			if eb.Kind() == types.Uint8 {
				r := make([]Value, len(s.b))
				for i, b := range s.b {
					r[i] = b
				}
				return r
			}
			// []rune
			cs, ok := s.concrete()
			if !ok {
				// ASCII-only symbolic strings
				r := make([]Value, len(s.b))
				for i, b := range s.b {
					if !b.IsConst() {
						if !in.branch(tb.ULt(b, tb.BV(8, 0x80))) {
							in.unsupported("[]rune of symbolic non-ASCII string")
						}
					} else if b.k >= 0x80 {
						in.unsupported("[]rune of mixed symbolic non-ASCII string")
					}
					r[i] = tb.ZExt(b, 32)
				}
				return r
			}
			var r []Value
			for _, c := range cs {
				r = append(r, tb.BV(32, uint64(c)))
			}
			if r == nil {
				r = []Value{}
			}
			return r
		}
		return x
	case *types.Basic:
		if ud.Kind() == types.UnsafePointer {
			switch x := x.(type) {
			case UPtr:
				return x
			case *Value:
				if x == nil {
					return UPtr{}
				}
				return UPtr{v: x}
			case *T:
				if x.IsConst() && x.k == 0 {
					return UPtr{}
				}
			}
			in.unsupported("conversion of %T to unsafe.Pointer", x)
		}
		if ud.Info()&types.IsString != 0 {
			switch xv := x.(type) {
			case Str:
				return xv
			case *T: // integer -> string
				if !xv.IsConst() {
					if in.branch(tb.ULt(in.to64(xv, tsrc), tb.BV(64, 0x80))) {
						return Str{b: []*T{tb.Extract(xv, 7, 0)}}
					}
					in.unsupported("string(symbolic non-ASCII rune)")
				}
				return in.mkStr(string(rune(sext64(xv.k, xv.w))))
			case []Value:
				eb := us.(*types.Slice).Elem().Underlying().(*types.Basic)
				if eb.Kind() == types.Uint8 {
					b := make([]*T, len(xv))
					for i, v := range xv {
						b[i] = v.(*T)
					}
					return Str{b: b}
				}
				// []rune -> string
				var bs []byte
				for _, v := range xv {
					t := v.(*T)
					if !t.IsConst() {
						in.unsupported("string([]rune) with symbolic rune")
					}
					bs = utf8.AppendRune(bs, rune(t.k))
				}
				return in.mkStr(string(bs))
			}
		}
		if ud.Info()&types.IsInteger != 0 {
			w := widthOf(ud)
			switch xv := x.(type) {
			case *T:
				if xv.w == 0 {
					break
				}
				if w <= xv.w {
					return tb.Extract(xv, w-1, 0)
				}
				if isSigned(tsrc) {
					return tb.SExt(xv, w)
				}
				return tb.ZExt(xv, w)
			case F64:
				return in.floatToInt(float64(xv), ud, w)
			case F32:
				return in.floatToInt(float64(xv), ud, w)
			case Rat:
				in.unsupported("conversion of a symbolic ratio to integer")
			case UPtr:
				if xv.v == nil {
					return tb.BV(w, 0)
				}
				in.unsupported("uintptr(unsafe.Pointer)")
			}
		}
		if ud.Info()&types.IsFloat != 0 {
			switch xv := x.(type) {
			case *T:
				if !xv.IsConst() {
					if ud.Kind() == types.Float64 {
						return Rat{num: xv, signed: isSigned(tsrc)}
					}
					in.unsupported("conversion of a symbolic integer to %v", tdst)
				}
				var f float64
				if isSigned(tsrc) {
					f = float64(sext64(xv.k, xv.w))
				} else {
					f = float64(xv.k)
				}
				if ud.Kind() == types.Float32 {
					return F32(f)
				}
				return F64(f)
			case F64:
				if ud.Kind() == types.Float32 {
					return F32(xv)
				}
				return xv
			case F32:
				if ud.Kind() == types.Float32 {
					return xv
				}
				return F64(xv)
			case Rat:
				return xv
			}
		}
	}
	in.unsupported("conversion %v -> %v of %T in %s", tsrc, tdst, x, fr.fn)
	return nil
}

func (in *Interp) floatToInt(f float64, b *types.Basic, w int) Value {
	if math.IsNaN(f) || math.IsInf(f, 0) {
		in.unsupported("float to int of NaN/Inf")
	}
	if b.Info()&types.IsUnsigned != 0 {
		return in.tb.BV(w, uint64(f))
	}
	return in.tb.BV(w, uint64(int64(f)))
}

// ---------------------------------------------------------------- exact ratios (restricted float pattern)

// Rat stands for float64(num) or float64(num)/float64(den) with symbolic integers; only
// comparisons are supported, by cross-multiplication (operands asserted < 2^31 so that the
// products are exact and float64 division rounding cannot reorder distinct ratios < 2^16).
type Rat struct {
	num, den *T
	signed   bool
	f        float64
	isF      bool
}

func (in *Interp) ratBinop(fr *frame, op token.Token, x Rat, y Value) Value {
	in.unsupported("symbolic float arithmetic (%s) in %s", op, fr.fn)
	return nil
}

var _ = fmt.Sprint

// divmodConst eliminates a wide division by a constant that is not a power of two: fresh q, r with
// the defining constraints x = q*c + r, r in the range truncated division gives it, and q bounded so
// that q*c cannot wrap. The constraints have exactly one solution for every x, so adding them to the
// path condition changes nothing but the shape of the formula (a constant multiplier instead of a divider).
func (in *Interp) divmodConst(x, y *T, signed bool) (q, r *T, ok bool) {
	tb := in.tb
	if x.IsConst() || !y.IsConst() || x.w < 32 || in.cfg.NoDivElim {
		return nil, nil, false
	}
	c := y.k
	if signed {
		sc := sext64(c, y.w)
		if sc <= 2 {
			return nil, nil, false
		}
	}
	if c <= 2 || c&(c-1) == 0 {
		return nil, nil, false
	}
	// structurally small non-negative operands are narrowed by the term builder instead
	if x.ub < 1<<16 {
		return nil, nil, false
	}
	// structural cases: x = a*K (+ b) with c | K and b < c, no wrap-around
	lim := uint64(1) << uint(x.w-1)
	mulParts := func(t *T) (a *T, K uint64, ok bool) {
		if t.op == OMul {
			if t.args[1].IsConst() {
				return t.args[0], t.args[1].k, true
			}
			if t.args[0].IsConst() {
				return t.args[1], t.args[0].k, true
			}
		}
		return nil, 0, false
	}
	fits := func(a *T, K uint64, extra uint64) bool {
		hi, lo := bits.Mul64(a.ub, K)
		return hi == 0 && lo < lim && lo+extra < lim && lo+extra >= lo
	}
	if a, K, ok := mulParts(x); ok && K%c == 0 && fits(a, K, 0) {
		return tb.Mul(a, tb.BV(x.w, K/c)), tb.BV(x.w, 0), true
	}
	if x.op == OAdd {
		for i := 0; i < 2; i++ {
			u, v := x.args[i], x.args[1-i]
			if a, K, ok := mulParts(u); ok && K%c == 0 && v.ub < c && fits(a, K, v.ub) {
				return tb.Mul(a, tb.BV(x.w, K/c)), v, true
			}
		}
	}
	// x = C + v with v small enough that the quotient does not depend on v
	if x.op == OAdd {
		for i := 0; i < 2; i++ {
			cst, v := x.args[i], x.args[1-i]
			if cst.IsConst() && cst.k < lim && v.ub < lim && cst.k+v.ub < lim && cst.k/c == (cst.k+v.ub)/c {
				return tb.BV(x.w, cst.k/c), tb.Add(tb.BV(x.w, cst.k%c), v), true
			}
		}
	}
	key := fmt.Sprintf("divmod:%d:%d:%v", x.id, c, signed)
	if v, found := in.ghost[key]; found {
		p := v.(Tuple)
		return p[0].(*T), p[1].(*T), true
	}
	w := x.w
	in.divN++
	q = tb.Var(fmt.Sprintf("div!q%d", in.divN), w)
	r = tb.Var(fmt.Sprintf("div!r%d", in.divN), w)
	cw := tb.BV(w, c)
	zero := tb.BV(w, 0)
	def := tb.Eq(r, tb.Sub(x, tb.Mul(q, cw)))
	var rng *T
	if signed && !(x.ub < uint64(1)<<uint(w-1)) {
		maxq := uint64(1)<<uint(w-1)/c + 0
		pos := tb.And(tb.SLe(zero, x), tb.And(tb.And(tb.SLe(zero, q), tb.SLe(q, tb.BV(w, maxq))), tb.And(tb.SLe(zero, r), tb.SLt(r, cw))))
		neg := tb.And(tb.SLt(x, zero), tb.And(tb.And(tb.SLe(q, zero), tb.SLe(tb.BV(w, -maxq), q)), tb.And(tb.SLe(r, zero), tb.SLt(tb.Neg(cw), r))))
		rng = tb.Or(pos, neg)
	} else {
		maxq := mask(w) / c
		if signed {
			maxq = (uint64(1)<<uint(w-1) - 1) / c
		}
		rng = tb.And(tb.ULe(q, tb.BV(w, maxq)), tb.ULt(r, cw))
	}
	in.assume(tb.And(def, rng))
	in.ghost[key] = Tuple{q, r}
	return q, r, true
}
