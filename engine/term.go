package main

// SMT terms: hash-consed, constant-folded bit-vector / bool terms.

import (
	"fmt"
	"math/bits"
	"strings"
)

type Op uint8

const (
	OConst Op = iota
	OVar
	ONot
	OAnd
	OOr
	OIte
	OEq
	OAdd
	OSub
	OMul
	OUDiv
	OSDiv
	OURem
	OSRem
	OBAnd
	OBOr
	OBXor
	OBNot
	ONeg
	OShl
	OLShr
	OAShr
	OULt
	OULe
	OSLt
	OSLe
	OConcat
	OExtract
	OZExt
	OSExt
	OUF
)

var opNames = map[Op]string{
	ONot: "not", OAnd: "and", OOr: "or", OIte: "ite", OEq: "=",
	OAdd: "bvadd", OSub: "bvsub", OMul: "bvmul", OUDiv: "bvudiv", OSDiv: "bvsdiv", OURem: "bvurem", OSRem: "bvsrem",
	OBAnd: "bvand", OBOr: "bvor", OBXor: "bvxor", OBNot: "bvnot", ONeg: "bvneg",
	OShl: "bvshl", OLShr: "bvlshr", OAShr: "bvashr",
	OULt: "bvult", OULe: "bvule", OSLt: "bvslt", OSLe: "bvsle", OConcat: "concat",
}

// T is a term. w == 0 means Bool, otherwise a bit-vector of width w (<= 64).
type T struct {
	op   Op
	w    int
	args []*T
	k    uint64 // const value; extract hi<<8|lo; ext amount
	name string // var / UF name
	id   int
	ub   uint64 // an upper bound of the unsigned value (bit-vectors)
}

func (t *T) IsConst() bool { return t.op == OConst }
func (t *T) IsBool() bool  { return t.w == 0 }

// TB is a per-worker term builder (hash-consing table).
type TB struct {
	tab   map[string]*T
	next  int
	bytes [256]*T
	tru   *T
	fls   *T
	vars  map[string]*T
	ufs   map[string][]int // name -> arg widths..., last = result width
}

func NewTB() *TB {
	b := &TB{tab: map[string]*T{}, vars: map[string]*T{}, ufs: map[string][]int{}}
	b.tru = b.mk(&T{op: OConst, w: 0, k: 1})
	b.fls = b.mk(&T{op: OConst, w: 0, k: 0})
	for i := 0; i < 256; i++ {
		b.bytes[i] = b.mk(&T{op: OConst, w: 8, k: uint64(i)})
	}
	return b
}

func (b *TB) key(t *T) string {
	var sb strings.Builder
	fmt.Fprintf(&sb, "%d:%d:%x:%s", t.op, t.w, t.k, t.name)
	for _, a := range t.args {
		fmt.Fprintf(&sb, ",%d", a.id)
	}
	return sb.String()
}

func (b *TB) mk(t *T) *T {
	k := b.key(t)
	if e, ok := b.tab[k]; ok {
		return e
	}
	b.next++
	t.id = b.next
	t.ub = upperBound(t)
	b.tab[k] = t
	return t
}

// upperBound: a cheap sound upper bound of the unsigned value of a bit-vector term.
func upperBound(t *T) uint64 {
	if t.w == 0 {
		return 1
	}
	m := mask(t.w)
	switch t.op {
	case OConst:
		return t.k
	case OZExt:
		return t.args[0].ub
	case OExtract:
		hi, lo := int(t.k>>8), int(t.k&0xff)
		if lo == 0 && t.args[0].ub <= mask(hi+1) {
			return t.args[0].ub
		}
		return mask(hi - lo + 1)
	case OBAnd:
		a, c := t.args[0].ub, t.args[1].ub
		if c < a {
			a = c
		}
		return a
	case OBOr, OBXor:
		a, c := t.args[0].ub, t.args[1].ub
		if c > a {
			a = c
		}
		// smallest all-ones mask covering both
		r := uint64(0)
		for r < a {
			r = r<<1 | 1
		}
		if r > m {
			r = m
		}
		return r
	case OLShr:
		if t.args[1].IsConst() {
			if t.args[1].k >= uint64(t.w) {
				return 0
			}
			return t.args[0].ub >> t.args[1].k
		}
		return t.args[0].ub
	case OURem:
		if t.args[1].IsConst() && t.args[1].k > 0 {
			r := t.args[1].k - 1
			if t.args[0].ub < r {
				r = t.args[0].ub
			}
			return r
		}
		return t.args[0].ub
	case OUDiv:
		if t.args[1].IsConst() && t.args[1].k > 0 {
			return t.args[0].ub / t.args[1].k
		}
		return t.args[0].ub
	case OIte:
		a, c := t.args[1].ub, t.args[2].ub
		if c > a {
			a = c
		}
		return a
	case OAdd:
		a, c := t.args[0].ub, t.args[1].ub
		if a+c >= a && a+c <= m {
			return a + c
		}
	case OMul:
		a, c := t.args[0].ub, t.args[1].ub
		if a != 0 && c != 0 {
			hi, lo := bits.Mul64(a, c)
			if hi == 0 && lo <= m {
				return lo
			}
		} else {
			return 0
		}
	case OShl:
		if t.args[1].IsConst() && t.args[1].k < 64 {
			a := t.args[0].ub
			if bits.Len64(a)+int(t.args[1].k) <= t.w {
				return a << t.args[1].k
			}
		}
	case OConcat:
		return t.args[0].ub<<uint(t.args[1].w) | mask(t.args[1].w)
	}
	return m
}

func mask(w int) uint64 {
	if w >= 64 {
		return ^uint64(0)
	}
	return (uint64(1) << uint(w)) - 1
}

func (b *TB) Bool(v bool) *T {
	if v {
		return b.tru
	}
	return b.fls
}

func (b *TB) BV(w int, v uint64) *T {
	v &= mask(w)
	if w == 8 {
		return b.bytes[v]
	}
	return b.mk(&T{op: OConst, w: w, k: v})
}

func (b *TB) Var(name string, w int) *T {
	if v, ok := b.vars[name]; ok {
		if v.w != w {
			panic("var redeclared with different width: " + name)
		}
		return v
	}
	v := b.mk(&T{op: OVar, w: w, name: name})
	b.vars[name] = v
	return v
}

func sext64(v uint64, w int) int64 {
	if w >= 64 {
		return int64(v)
	}
	sh := uint(64 - w)
	return int64(v<<sh) >> sh
}

// ---- boolean ops

func (b *TB) Not(x *T) *T {
	if x.IsConst() {
		return b.Bool(x.k == 0)
	}
	if x.op == ONot {
		return x.args[0]
	}
	return b.mk(&T{op: ONot, args: []*T{x}})
}

func (b *TB) And(x, y *T) *T {
	if x.IsConst() {
		if x.k == 0 {
			return b.fls
		}
		return y
	}
	if y.IsConst() {
		if y.k == 0 {
			return b.fls
		}
		return x
	}
	if x == y {
		return x
	}
	return b.mk(&T{op: OAnd, args: []*T{x, y}})
}

func (b *TB) Or(x, y *T) *T {
	if x.IsConst() {
		if x.k == 1 {
			return b.tru
		}
		return y
	}
	if y.IsConst() {
		if y.k == 1 {
			return b.tru
		}
		return x
	}
	if x == y {
		return x
	}
	return b.mk(&T{op: OOr, args: []*T{x, y}})
}

func (b *TB) Ite(c, x, y *T) *T {
	if c.IsConst() {
		if c.k == 1 {
			return x
		}
		return y
	}
	if x == y {
		return x
	}
	if x.w != y.w {
		panic(fmt.Sprintf("ite width mismatch %d %d", x.w, y.w))
	}
	if x.w == 0 && x.IsConst() && y.IsConst() {
		if x.k == 1 {
			return c
		}
		return b.Not(c)
	}
	return b.mk(&T{op: OIte, w: x.w, args: []*T{c, x, y}})
}

func (b *TB) Eq(x, y *T) *T {
	if x.w != y.w {
		panic(fmt.Sprintf("eq width mismatch %d %d", x.w, y.w))
	}
	if x == y {
		return b.tru
	}
	if x.IsConst() && y.IsConst() {
		return b.Bool(x.k == y.k)
	}
	if x.w == 0 {
		if x.IsConst() {
			if x.k == 1 {
				return y
			}
			return b.Not(y)
		}
		if y.IsConst() {
			if y.k == 1 {
				return x
			}
			return b.Not(x)
		}
	}
	if x.id > y.id {
		x, y = y, x
	}
	return b.mk(&T{op: OEq, args: []*T{x, y}})
}

// ---- bit-vector ops

func (b *TB) bin(op Op, x, y *T) *T {
	if x.w != y.w || x.w == 0 {
		panic(fmt.Sprintf("binop %s width mismatch %d %d", opNames[op], x.w, y.w))
	}
	w := x.w
	if x.IsConst() && y.IsConst() {
		if v, ok := foldBin(op, x.k, y.k, w); ok {
			return b.BV(w, v)
		}
	}
	// narrow divisions whose operands are structurally small and non-negative
	if (op == OUDiv || op == OURem || op == OSDiv || op == OSRem) && w > 8 {
		lim := uint64(1) << uint(w-1)
		if x.ub < lim && y.ub < lim && (op == OUDiv || op == OURem || true) {
			m := x.ub
			if y.ub > m {
				m = y.ub
			}
			nw := 0
			for _, cand := range []int{8, 16, 32} {
				if cand < w && m < uint64(1)<<uint(cand) {
					nw = cand
					break
				}
			}
			if nw > 0 && !(y.IsConst() && y.k == 0) {
				uop := op
				if op == OSDiv {
					uop = OUDiv
				}
				if op == OSRem {
					uop = OURem
				}
				// division by zero keeps SMT-LIB semantics only for the unsigned forms; callers guard zero divisors
				if y.IsConst() {
					return b.ZExt(b.bin(uop, b.Extract(x, nw-1, 0), b.Extract(y, nw-1, 0)), w)
				}
			}
		}
	}
	// (X << k) + y  with y < 2^k  is the concatenation X[w-k-1:0] ++ y[k-1:0]
	if op == OAdd || op == OBOr {
		for i := 0; i < 2; i++ {
			p, q := x, y
			if i == 1 {
				p, q = y, x
			}
			if p.op == OShl && p.args[1].IsConst() && !q.IsConst() {
				k := int(p.args[1].k)
				if k > 0 && k < w && q.ub < uint64(1)<<uint(k) {
					return b.Concat(b.Extract(p.args[0], w-k-1, 0), b.Extract(q, k-1, 0))
				}
			}
		}
	}
	// light simplifications
	switch op {
	case OAdd:
		if x.IsConst() && x.k == 0 {
			return y
		}
		if y.IsConst() && y.k == 0 {
			return x
		}
		// (t + c1) + c2  ->  t + (c1+c2)
		if y.IsConst() && x.op == OAdd && x.args[1].IsConst() {
			return b.bin(OAdd, x.args[0], b.BV(w, x.args[1].k+y.k))
		}
		if x.IsConst() && y.op == OAdd && y.args[1].IsConst() {
			return b.bin(OAdd, y.args[0], b.BV(w, y.args[1].k+x.k))
		}
		if x.IsConst() && !y.IsConst() {
			x, y = y, x // constants on the right
		}
	case OSub:
		if y.IsConst() && y.k == 0 {
			return x
		}
		if x == y {
			return b.BV(w, 0)
		}
		if x.op == OAdd {
			if x.args[0] == y {
				return x.args[1]
			}
			if x.args[1] == y {
				return x.args[0]
			}
		}
		if y.IsConst() {
			return b.bin(OAdd, x, b.BV(w, -y.k)) // normal form: additions of constants
		}
	case OMul:
		if x.IsConst() && x.k == 1 {
			return y
		}
		if y.IsConst() && y.k == 1 {
			return x
		}
		if (x.IsConst() && x.k == 0) || (y.IsConst() && y.k == 0) {
			return b.BV(w, 0)
		}
	case OBAnd:
		if (x.IsConst() && x.k == 0) || (y.IsConst() && y.k == 0) {
			return b.BV(w, 0)
		}
		if x.IsConst() && x.k == mask(w) {
			return y
		}
		if y.IsConst() && y.k == mask(w) {
			return x
		}
		if x == y {
			return x
		}
		// masking with 2^k-1 a value already below 2^k
		if y.IsConst() && y.k&(y.k+1) == 0 && x.ub <= y.k {
			return x
		}
		if x.IsConst() && x.k&(x.k+1) == 0 && y.ub <= x.k {
			return y
		}
	case OBOr, OBXor:
		if x.IsConst() && x.k == 0 {
			return y
		}
		if y.IsConst() && y.k == 0 {
			return x
		}
		if x == y {
			if op == OBOr {
				return x
			}
			return b.BV(w, 0)
		}
	case OShl, OLShr, OAShr:
		if y.IsConst() && y.k == 0 {
			return x
		}
	}
	return b.mk(&T{op: op, w: w, args: []*T{x, y}})
}

func foldBin(op Op, a, c uint64, w int) (uint64, bool) {
	m := mask(w)
	switch op {
	case OAdd:
		return (a + c) & m, true
	case OSub:
		return (a - c) & m, true
	case OMul:
		return (a * c) & m, true
	case OUDiv:
		if c == 0 {
			return m, true
		}
		return a / c, true
	case OURem:
		if c == 0 {
			return a, true
		}
		return a % c, true
	case OSDiv:
		if c == 0 {
			return 0, false
		}
		sa, sc := sext64(a, w), sext64(c, w)
		if sc == -1 {
			return uint64(-sa) & m, true
		}
		return uint64(sa/sc) & m, true
	case OSRem:
		if c == 0 {
			return 0, false
		}
		sa, sc := sext64(a, w), sext64(c, w)
		if sc == -1 {
			return 0, true
		}
		return uint64(sa%sc) & m, true
	case OBAnd:
		return a & c, true
	case OBOr:
		return a | c, true
	case OBXor:
		return a ^ c, true
	case OShl:
		if c >= uint64(w) {
			return 0, true
		}
		return (a << c) & m, true
	case OLShr:
		if c >= uint64(w) {
			return 0, true
		}
		return a >> c, true
	case OAShr:
		sa := sext64(a, w)
		if c >= uint64(w) {
			c = uint64(w - 1)
			if w == 64 {
				c = 63
			}
		}
		return uint64(sa>>c) & m, true
	}
	return 0, false
}

func (b *TB) Add(x, y *T) *T  { return b.bin(OAdd, x, y) }
func (b *TB) Sub(x, y *T) *T  { return b.bin(OSub, x, y) }
func (b *TB) Mul(x, y *T) *T  { return b.bin(OMul, x, y) }
func (b *TB) UDiv(x, y *T) *T { return b.bin(OUDiv, x, y) }
func (b *TB) SDiv(x, y *T) *T { return b.bin(OSDiv, x, y) }
func (b *TB) URem(x, y *T) *T { return b.bin(OURem, x, y) }
func (b *TB) SRem(x, y *T) *T { return b.bin(OSRem, x, y) }
func (b *TB) BAnd(x, y *T) *T { return b.bin(OBAnd, x, y) }
func (b *TB) BOr(x, y *T) *T  { return b.bin(OBOr, x, y) }
func (b *TB) BXor(x, y *T) *T { return b.bin(OBXor, x, y) }
func (b *TB) Shl(x, y *T) *T  { return b.bin(OShl, x, y) }
func (b *TB) LShr(x, y *T) *T { return b.bin(OLShr, x, y) }
func (b *TB) AShr(x, y *T) *T { return b.bin(OAShr, x, y) }

func (b *TB) BNot(x *T) *T {
	if x.IsConst() {
		return b.BV(x.w, ^x.k)
	}
	return b.mk(&T{op: OBNot, w: x.w, args: []*T{x}})
}

func (b *TB) Neg(x *T) *T {
	if x.IsConst() {
		return b.BV(x.w, -x.k)
	}
	return b.mk(&T{op: ONeg, w: x.w, args: []*T{x}})
}

func (b *TB) cmp(op Op, x, y *T) *T {
	if x.w != y.w || x.w == 0 {
		panic(fmt.Sprintf("cmp %s width mismatch %d %d", opNames[op], x.w, y.w))
	}
	if x.IsConst() && y.IsConst() {
		switch op {
		case OULt:
			return b.Bool(x.k < y.k)
		case OULe:
			return b.Bool(x.k <= y.k)
		case OSLt:
			return b.Bool(sext64(x.k, x.w) < sext64(y.k, y.w))
		case OSLe:
			return b.Bool(sext64(x.k, x.w) <= sext64(y.k, y.w))
		}
	}
	if x == y {
		return b.Bool(op == OULe || op == OSLe)
	}
	// signed comparison of two values known to be non-negative is the unsigned comparison
	if (op == OSLt || op == OSLe) && x.ub < uint64(1)<<uint(x.w-1) && y.ub < uint64(1)<<uint(y.w-1) {
		if op == OSLt {
			return b.cmp(OULt, x, y)
		}
		return b.cmp(OULe, x, y)
	}
	// unsigned: x < 0 false ; 0 <= x true
	if op == OULt && y.IsConst() && y.k == 0 {
		return b.fls
	}
	if y.IsConst() {
		if op == OULt && x.ub < y.k {
			return b.tru
		}
		if op == OULe && x.ub <= y.k {
			return b.tru
		}
		// signed comparisons when both are known non-negative
		if x.w < 64 || x.ub < 1<<63 {
			if x.ub < uint64(1)<<uint(x.w-1) && sext64(y.k, y.w) >= 0 {
				if op == OSLt && x.ub < y.k {
					return b.tru
				}
				if op == OSLe && x.ub <= y.k {
					return b.tru
				}
			}
		}
	}
	if x.IsConst() {
		if op == OULt && y.ub <= x.k {
			return b.fls
		}
		if op == OULe && y.ub < x.k {
			return b.fls
		}
		if (op == OSLe || op == OSLt) && sext64(x.k, x.w) < 0 && y.ub < uint64(1)<<uint(y.w-1) {
			return b.tru
		}
		if op == OSLe && sext64(x.k, x.w) == 0 && y.ub < uint64(1)<<uint(y.w-1) {
			return b.tru
		}
	}
	if op == OULe && x.IsConst() && x.k == 0 {
		return b.tru
	}
	// zero-extended operand against constant beyond range
	if op == OULt && x.op == OZExt && y.IsConst() && y.k > mask(x.args[0].w) {
		return b.tru
	}
	if op == OSLt && x.op == OZExt && y.IsConst() && sext64(y.k, y.w) > int64(mask(x.args[0].w)) {
		return b.tru
	}
	if op == OSLe && x.IsConst() && sext64(x.k, x.w) <= 0 && y.op == OZExt {
		return b.tru
	}
	if op == OSLt && y.IsConst() && sext64(y.k, y.w) <= 0 && x.op == OZExt {
		return b.fls
	}
	return b.mk(&T{op: op, args: []*T{x, y}})
}

func (b *TB) ULt(x, y *T) *T { return b.cmp(OULt, x, y) }
func (b *TB) ULe(x, y *T) *T { return b.cmp(OULe, x, y) }
func (b *TB) SLt(x, y *T) *T { return b.cmp(OSLt, x, y) }
func (b *TB) SLe(x, y *T) *T { return b.cmp(OSLe, x, y) }

func (b *TB) Extract(x *T, hi, lo int) *T {
	if lo == 0 && hi == x.w-1 {
		return x
	}
	w := hi - lo + 1
	if x.IsConst() {
		return b.BV(w, x.k>>uint(lo))
	}
	if x.op == OZExt || x.op == OSExt {
		in := x.args[0]
		if hi < in.w {
			return b.Extract(in, hi, lo)
		}
		if x.op == OZExt && lo >= in.w {
			return b.BV(w, 0)
		}
		if x.op == OZExt && lo == 0 {
			return b.ZExt(in, w)
		}
	}
	if x.op == OConcat {
		lw := x.args[1].w
		if hi < lw {
			return b.Extract(x.args[1], hi, lo)
		}
		if lo >= lw {
			return b.Extract(x.args[0], hi-lw, lo-lw)
		}
	}
	if x.op == OExtract {
		ilo := int(x.k & 0xff)
		return b.Extract(x.args[0], hi+ilo, lo+ilo)
	}
	if x.op == OLShr && x.args[1].IsConst() {
		c := int(x.args[1].k)
		if hi+c < x.w {
			return b.Extract(x.args[0], hi+c, lo+c)
		}
	}
	if x.op == OShl && x.args[1].IsConst() {
		c := int(x.args[1].k)
		if lo >= c && c < x.w {
			return b.Extract(x.args[0], hi-c, lo-c)
		}
		if hi < c {
			return b.BV(w, 0)
		}
	}
	return b.mk(&T{op: OExtract, w: w, args: []*T{x}, k: uint64(hi)<<8 | uint64(lo)})
}

func (b *TB) ZExt(x *T, w int) *T {
	if w == x.w {
		return x
	}
	if w < x.w {
		return b.Extract(x, w-1, 0)
	}
	if x.IsConst() {
		return b.BV(w, x.k)
	}
	if x.op == OZExt {
		return b.ZExt(x.args[0], w)
	}
	return b.mk(&T{op: OZExt, w: w, args: []*T{x}, k: uint64(w - x.w)})
}

func (b *TB) SExt(x *T, w int) *T {
	if w == x.w {
		return x
	}
	if w < x.w {
		return b.Extract(x, w-1, 0)
	}
	if x.IsConst() {
		return b.BV(w, uint64(sext64(x.k, x.w)))
	}
	if x.op == OZExt {
		return b.ZExt(x.args[0], w)
	}
	if x.ub < uint64(1)<<uint(x.w-1) {
		return b.ZExt(x, w) // known non-negative
	}
	return b.mk(&T{op: OSExt, w: w, args: []*T{x}, k: uint64(w - x.w)})
}

func (b *TB) Concat(hi, lo *T) *T {
	w := hi.w + lo.w
	if w > 64 {
		panic("concat > 64")
	}
	if hi.IsConst() && lo.IsConst() {
		return b.BV(w, hi.k<<uint(lo.w)|lo.k)
	}
	if hi.IsConst() && hi.k == 0 {
		return b.ZExt(lo, w)
	}
	if hi.op == OZExt {
		inner := hi.args[0]
		return b.ZExt(b.Concat(inner, lo), w)
	}
	// adjacent extracts of the same term
	if hi.op == OExtract && lo.op == OExtract && hi.args[0] == lo.args[0] {
		hlo := int(hi.k & 0xff)
		lhi := int(lo.k >> 8)
		if hlo == lhi+1 {
			return b.Extract(hi.args[0], int(hi.k>>8), int(lo.k&0xff))
		}
	}
	return b.mk(&T{op: OConcat, w: w, args: []*T{hi, lo}})
}

// UF applies an uninterpreted function.
func (b *TB) UF(name string, resw int, args ...*T) *T {
	sig := make([]int, 0, len(args)+1)
	for _, a := range args {
		sig = append(sig, a.w)
	}
	sig = append(sig, resw)
	if old, ok := b.ufs[name]; ok {
		if fmt.Sprint(old) != fmt.Sprint(sig) {
			panic("UF redeclared with a different signature: " + name)
		}
	} else {
		b.ufs[name] = sig
	}
	return b.mk(&T{op: OUF, w: resw, name: name, args: append([]*T(nil), args...)})
}

// ---- printing

func sortStr(w int) string {
	if w == 0 {
		return "Bool"
	}
	return fmt.Sprintf("(_ BitVec %d)", w)
}

func constStr(t *T) string {
	if t.w == 0 {
		if t.k == 1 {
			return "true"
		}
		return "false"
	}
	if t.w%4 == 0 {
		return fmt.Sprintf("#x%0*x", t.w/4, t.k)
	}
	return fmt.Sprintf("#b%0*b", t.w, t.k)
}

// ref returns how to refer to t inside another term (leaf text or node name).
func ref(t *T) string {
	switch t.op {
	case OConst:
		return constStr(t)
	case OVar:
		return t.name
	}
	return fmt.Sprintf("n%d", t.id)
}

// body returns the SMT-LIB expression for a non-leaf node in terms of refs of its args.
func body(t *T) string {
	var sb strings.Builder
	switch t.op {
	case OExtract:
		fmt.Fprintf(&sb, "((_ extract %d %d) %s)", t.k>>8, t.k&0xff, ref(t.args[0]))
		return sb.String()
	case OZExt:
		fmt.Fprintf(&sb, "((_ zero_extend %d) %s)", t.k, ref(t.args[0]))
		return sb.String()
	case OSExt:
		fmt.Fprintf(&sb, "((_ sign_extend %d) %s)", t.k, ref(t.args[0]))
		return sb.String()
	case OUF:
		if len(t.args) == 0 {
			return t.name
		}
		sb.WriteString("(" + t.name)
	default:
		sb.WriteString("(" + opNames[t.op])
	}
	for _, a := range t.args {
		sb.WriteByte(' ')
		sb.WriteString(ref(a))
	}
	sb.WriteByte(')')
	return sb.String()
}

// Pretty prints a term as a nested expression (for evidence samples), bounded in size.
func Pretty(t *T, budget *int) string {
	if *budget <= 0 {
		return "…"
	}
	*budget--
	switch t.op {
	case OConst:
		if t.w == 0 {
			return constStr(t)
		}
		return fmt.Sprintf("%d", t.k)
	case OVar:
		return t.name
	case OExtract:
		return fmt.Sprintf("%s[%d:%d]", Pretty(t.args[0], budget), t.k>>8, t.k&0xff)
	case OZExt:
		return fmt.Sprintf("zx%d(%s)", t.w, Pretty(t.args[0], budget))
	case OSExt:
		return fmt.Sprintf("sx%d(%s)", t.w, Pretty(t.args[0], budget))
	}
	name := opNames[t.op]
	if t.op == OUF {
		name = t.name
	}
	parts := []string{name}
	for _, a := range t.args {
		parts = append(parts, Pretty(a, budget))
	}
	return "(" + strings.Join(parts, " ") + ")"
}

// ---- evaluation under a model

func Eval(t *T, m map[string]uint64, memo map[*T]uint64, uf func(name string, args []uint64) uint64) uint64 {
	if t.op == OConst {
		return t.k
	}
	if v, ok := memo[t]; ok {
		return v
	}
	var a [3]uint64
	var av []uint64
	if t.op == OUF {
		av = make([]uint64, len(t.args))
		for i, x := range t.args {
			av[i] = Eval(x, m, memo, uf)
		}
	} else {
		for i, x := range t.args {
			a[i] = Eval(x, m, memo, uf)
		}
	}
	var r uint64
	bo := func(v bool) uint64 {
		if v {
			return 1
		}
		return 0
	}
	w := t.w
	switch t.op {
	case OVar:
		r = m[t.name] & mask64(w)
	case ONot:
		r = a[0] ^ 1
	case OAnd:
		r = a[0] & a[1]
	case OOr:
		r = a[0] | a[1]
	case OIte:
		if a[0] == 1 {
			r = a[1]
		} else {
			r = a[2]
		}
	case OEq:
		r = bo(a[0] == a[1])
	case OULt:
		r = bo(a[0] < a[1])
	case OULe:
		r = bo(a[0] <= a[1])
	case OSLt:
		aw := t.args[0].w
		r = bo(sext64(a[0], aw) < sext64(a[1], aw))
	case OSLe:
		aw := t.args[0].w
		r = bo(sext64(a[0], aw) <= sext64(a[1], aw))
	case OBNot:
		r = ^a[0] & mask(w)
	case ONeg:
		r = -a[0] & mask(w)
	case OExtract:
		hi, lo := int(t.k>>8), int(t.k&0xff)
		r = (a[0] >> uint(lo)) & mask(hi-lo+1)
	case OZExt:
		r = a[0]
	case OSExt:
		r = uint64(sext64(a[0], t.args[0].w)) & mask(w)
	case OConcat:
		r = a[0]<<uint(t.args[1].w) | a[1]
	case OUF:
		r = uf(t.name, av) & mask64(w)
	case OSDiv:
		if a[1] == 0 {
			// SMT-LIB: bvsdiv by zero
			if sext64(a[0], w) < 0 {
				r = 1
			} else {
				r = mask(w)
			}
		} else {
			r, _ = foldBin(t.op, a[0], a[1], w)
		}
	case OSRem:
		if a[1] == 0 {
			r = a[0]
		} else {
			r, _ = foldBin(t.op, a[0], a[1], w)
		}
	default:
		r, _ = foldBin(t.op, a[0], a[1], w)
	}
	memo[t] = r
	return r
}

func mask64(w int) uint64 {
	if w == 0 {
		return 1
	}
	return mask(w)
}

var _ = bits.Len
