package main

// Interpreter values. Scalars (bool, integers) are SMT terms; the heap is concrete
// (Go pointers to slots), so memory shape is concrete on every path.

import (
	"fmt"
	"go/types"
	"strings"

	"golang.org/x/tools/go/ssa"
)

type Value interface{}

// Str is an immutable string with concrete length and possibly symbolic bytes.
type Str struct {
	b      []*T
	opaque bool // result of formatting symbolic data: contents must not be inspected
	otag   string
	num    *T // opaque decimal rendering of this unsigned 64-bit term (strconv.FormatUint of a symbolic value)
}

type Struct []Value
type Array []Value
type Tuple []Value

type Iface struct {
	t types.Type // nil => nil interface
	v Value
}

type Closure struct {
	Fn  *ssa.Function
	Env []Value
}

// Bound is a bound method value created by an intrinsic (not by SSA).
type Poison struct{ why string }

type UPtr struct{ v Value } // unsafe.Pointer wrapper

// SymPtr is the address of arr[idx] for a symbolic, in-range idx over scalar elements.
type SymPtr struct {
	arr []Value
	idx *T
}

type Map struct {
	keys  []Value
	vals  []Value
	dead  []bool
	index map[string]int // canonical concrete key -> position (only when all keys concrete)
	n     int
	kt    types.Type
}

type Chan struct {
	buf    []Value
	cap    int
	closed bool
	timer  bool // a timer's channel: in a select it may fire at any moment
}

// Float values are concrete only.
type F64 float64
type F32 float32

func isNilPtr(v Value) bool {
	p, ok := v.(*Value)
	return ok && p == nil
}

func (in *Interp) zero(t types.Type) Value {
	switch t := t.(type) {
	case *types.Basic:
		switch t.Kind() {
		case types.Bool, types.UntypedBool:
			return in.tb.fls
		case types.String, types.UntypedString:
			return Str{}
		case types.Float64, types.UntypedFloat:
			return F64(0)
		case types.Float32:
			return F32(0)
		case types.UnsafePointer:
			return UPtr{}
		case types.UntypedNil:
			panic("untyped nil has no zero value")
		case types.Complex64, types.Complex128:
			return Poison{"complex"}
		}
		return in.tb.BV(widthOf(t), 0)
	case *types.Pointer:
		return (*Value)(nil)
	case *types.Array:
		a := make(Array, t.Len())
		if t.Len() > 0 {
			// fast path for scalar element types
			z := in.zero(t.Elem())
			if _, ok := z.(*T); ok {
				for i := range a {
					a[i] = z
				}
			} else {
				a[0] = z
				for i := 1; i < len(a); i++ {
					a[i] = in.zero(t.Elem())
				}
			}
		}
		return a
	case *types.Named, *types.Alias:
		return in.zero(t.Underlying())
	case *types.Interface:
		return Iface{}
	case *types.Slice:
		return []Value(nil)
	case *types.Struct:
		s := make(Struct, t.NumFields())
		for i := range s {
			s[i] = in.zero(t.Field(i).Type())
		}
		return s
	case *types.Tuple:
		if t.Len() == 1 {
			return in.zero(t.At(0).Type())
		}
		s := make(Tuple, t.Len())
		for i := range s {
			s[i] = in.zero(t.At(i).Type())
		}
		return s
	case *types.Chan:
		return (*Chan)(nil)
	case *types.Map:
		return (*Map)(nil)
	case *types.Signature:
		return (*ssa.Function)(nil)
	case *types.TypeParam:
		panic("type param zero")
	}
	panic(fmt.Sprintf("zero: unexpected type %T %v", t, t))
}

func widthOf(t *types.Basic) int {
	switch t.Kind() {
	case types.Int8, types.Uint8:
		return 8
	case types.Int16, types.Uint16:
		return 16
	case types.Int32, types.Uint32:
		return 32
	case types.Int, types.Uint, types.Int64, types.Uint64, types.Uintptr, types.UntypedInt, types.UntypedRune:
		return 64
	}
	panic(fmt.Sprintf("widthOf %v", t))
}

func isSigned(t types.Type) bool {
	b, ok := t.Underlying().(*types.Basic)
	if !ok {
		return false
	}
	return b.Info()&types.IsInteger != 0 && b.Info()&types.IsUnsigned == 0
}

func isInteger(t types.Type) bool {
	b, ok := t.Underlying().(*types.Basic)
	return ok && b.Info()&types.IsInteger != 0
}

func isFloat(t types.Type) bool {
	b, ok := t.Underlying().(*types.Basic)
	return ok && b.Info()&types.IsFloat != 0
}

func isString(t types.Type) bool {
	b, ok := t.Underlying().(*types.Basic)
	return ok && b.Info()&types.IsString != 0
}

// copyVal returns a copy of v with value semantics (structs and arrays are deep-copied).
func copyVal(v Value) Value {
	switch v := v.(type) {
	case Struct:
		a := make(Struct, len(v))
		for i, x := range v {
			a[i] = copyVal(x)
		}
		return a
	case Array:
		a := make(Array, len(v))
		if len(v) > 0 {
			if _, ok := v[0].(*T); ok {
				copy(a, v)
				return a
			}
		}
		for i, x := range v {
			a[i] = copyVal(x)
		}
		return a
	case Tuple:
		a := make(Tuple, len(v))
		for i, x := range v {
			a[i] = copyVal(x)
		}
		return a
	}
	return v
}

// ---- strings

func (in *Interp) mkStr(s string) Str {
	b := make([]*T, len(s))
	for i := 0; i < len(s); i++ {
		b[i] = in.tb.bytes[s[i]]
	}
	return Str{b: b}
}

// concrete returns the Go string if every byte is constant.
func (s Str) concrete() (string, bool) {
	if s.opaque {
		return "", false
	}
	bs := make([]byte, len(s.b))
	for i, t := range s.b {
		if !t.IsConst() {
			return "", false
		}
		bs[i] = byte(t.k)
	}
	return string(bs), true
}

func (s Str) show() string {
	if s.opaque {
		return "<opaque:" + s.otag + ">"
	}
	var sb strings.Builder
	for _, t := range s.b {
		if t.IsConst() {
			sb.WriteByte(byte(t.k))
		} else {
			sb.WriteString("?")
		}
	}
	return sb.String()
}

// ---- maps

func newMap(kt types.Type) *Map { return &Map{index: map[string]int{}, kt: kt} }

// canonKey returns a canonical string for fully concrete, hashable keys.
func canonKey(v Value) (string, bool) {
	switch v := v.(type) {
	case *T:
		if v.IsConst() {
			return fmt.Sprintf("i%d:%d", v.w, v.k), true
		}
		return "", false
	case Str:
		s, ok := v.concrete()
		return "s" + s, ok
	case *Value:
		return fmt.Sprintf("p%p", v), true
	case F64:
		return fmt.Sprintf("f%v", float64(v)), true
	case Struct:
		var sb strings.Builder
		sb.WriteString("{")
		for _, x := range v {
			k, ok := canonKey(x)
			if !ok {
				return "", false
			}
			sb.WriteString(k + ";")
		}
		return sb.String() + "}", true
	case Array:
		var sb strings.Builder
		sb.WriteString("[")
		for _, x := range v {
			k, ok := canonKey(x)
			if !ok {
				return "", false
			}
			sb.WriteString(k + ";")
		}
		return sb.String() + "]", true
	case Iface:
		if v.t == nil {
			return "nil", true
		}
		k, ok := canonKey(v.v)
		return "I" + v.t.String() + ":" + k, ok
	case *Chan:
		return fmt.Sprintf("c%p", v), true
	case *Map:
		return fmt.Sprintf("m%p", v), true
	}
	return "", false
}

func showValue(v Value) string {
	switch v := v.(type) {
	case *T:
		n := 40
		return Pretty(v, &n)
	case Str:
		return fmt.Sprintf("%q", v.show())
	case Struct:
		parts := []string{}
		for _, x := range v {
			parts = append(parts, showValue(x))
		}
		return "{" + strings.Join(parts, " ") + "}"
	case Iface:
		if v.t == nil {
			return "nil"
		}
		return fmt.Sprintf("iface(%s)", v.t)
	case nil:
		return "<nil-go>"
	}
	return fmt.Sprintf("%T", v)
}
