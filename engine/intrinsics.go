package main

import (
	"fmt"
	"go/types"
	"strings"

	"golang.org/x/tools/go/ssa"
)

const rtPkg = "github.com/chrislusf/seaweedfs/weed/zzverifrt"

type intrinsic func(in *Interp, fr *frame, fn *ssa.Function, args []Value) Value

var intrinsics = map[string]intrinsic{}

// pkgIntrinsics handle every function of a package (second result: handled).
var pkgIntrinsics = map[string]func(in *Interp, fr *frame, fn *ssa.Function, args []Value) (Value, bool){}

var deniedPrefixes = []string{
	"github.com/prometheus/",
	"google.golang.org/grpc",
	"google.golang.org/protobuf",
	"github.com/golang/protobuf",
	"github.com/chrislusf/seaweedfs/weed/stats",
	"expvar",
	"github.com/spf13/viper",
	"github.com/aws/aws-sdk-go/aws/endpoints",
	"github.com/aws/aws-sdk-go/aws/session",
	"github.com/aws/aws-sdk-go/aws/request",
	"net/http/pprof",
	"log",
}

func deniedPkg(path string) bool {
	for _, p := range deniedPrefixes {
		if path == p || strings.HasPrefix(path, p) && (strings.HasSuffix(p, "/") || len(path) == len(p) || path[len(p)] == '/') {
			return true
		}
	}
	return false
}

// noInitPkg: packages whose initialisers are not run (their functions are still interpreted
// or modelled); their globals keep zero values unless listed in initOverrides.
var noInitPkgs = map[string]bool{
	"runtime": true, "syscall": true, "os": true, "reflect": true, "time": true,
	"internal/cpu": true, "internal/bytealg": true, "internal/poll": true, "internal/godebug": true,
	"sync": true, "sync/atomic": true, "math/rand": true, "unsafe": true, "internal/reflectlite": true,
	"hash/crc32": true, "github.com/klauspost/crc32": true, "internal/syscall/unix": true,
	"net": true, "net/http": true, "crypto/rand": true, "fmt": true, "flag": true, "os/signal": true,
	"internal/testlog": true, "internal/oserror": false, "math/bits": true, "internal/itoa": true,
	"github.com/chrislusf/seaweedfs/weed/glog": true, "golang.org/x/sys/unix": true, "os/user": true,
	"crypto/md5": true, "mime": true, "encoding/json": true, "encoding/xml": true, "regexp": true, "regexp/syntax": true,
}

func noInitPkg(path string) bool { return noInitPkgs[path] }

func reg(name string, f intrinsic) { intrinsics[name] = f }

// modelRedirects: library functions replaced by Go models living in the rt package (/verif/rt/models.go).
var modelRedirects = map[string]string{
	"strconv.ParseUint": "ModelParseUint",
	"strconv.ParseInt":  "ModelParseInt",
	"strconv.Atoi":      "ModelAtoi",
}

type builtinObj struct {
	kind string
	data interface{}
}

type boundBuiltin struct {
	obj    *builtinObj
	method string
}

func (o *builtinObj) call(in *Interp, fr *frame, method string, args []Value) Value {
	if o.kind == "noop" {
		return nil
	}
	if o.kind == "rtype" && method == "Comparable" {
		return in.tb.tru
	}
	if o.kind == "fileinfo" {
		return fileInfoCall(in, o, method)
	}
	in.unsupported("builtin object %s.%s", o.kind, method)
	return nil
}

func (in *Interp) argStr(v Value, what string) string {
	s, ok := v.(Str)
	if !ok {
		in.unsupported("%s is %T", what, v)
	}
	c, ok := s.concrete()
	if !ok {
		in.unsupported("%s must be a concrete string", what)
	}
	return c
}

func (in *Interp) record(tag, kind string, ts []*T, n int) {
	in.nondet = append(in.nondet, NondetRec{Tag: tag, Kind: kind, Ts: ts, N: n})
}

func init() {
	scalar := func(kind string, w int) intrinsic {
		return func(in *Interp, fr *frame, fn *ssa.Function, args []Value) Value {
			tag := in.argStr(args[0], "rt tag")
			if in.initMode > 0 {
				in.unsupported("nondet during package init")
			}
			v := in.freshVar(tag, w)
			in.record(tag, kind, []*T{v}, 0)
			return v
		}
	}
	reg(rtPkg+".U8", scalar("u8", 8))
	reg(rtPkg+".U16", scalar("u16", 16))
	reg(rtPkg+".U32", scalar("u32", 32))
	reg(rtPkg+".U64", scalar("u64", 64))
	reg(rtPkg+".I32", scalar("i32", 32))
	reg(rtPkg+".I64", scalar("i64", 64))
	reg(rtPkg+".Int", scalar("int", 64))
	reg(rtPkg+".Bool", func(in *Interp, fr *frame, fn *ssa.Function, args []Value) Value {
		tag := in.argStr(args[0], "rt tag")
		v := in.freshVar(tag, 0)
		in.record(tag, "bool", []*T{v}, 0)
		return v
	})
	bytesFn := func(asString bool) intrinsic {
		return func(in *Interp, fr *frame, fn *ssa.Function, args []Value) Value {
			tag := in.argStr(args[0], "rt tag")
			n := in.concreteInt(args[1], "rt.Bytes length")
			ts := make([]*T, n)
			for i := range ts {
				ts[i] = in.freshVar(fmt.Sprintf("%s.b%d", tag, i), 8)
			}
			in.record(tag, "bytes", ts, n)
			if asString {
				return Str{b: ts}
			}
			vs := make([]Value, n)
			for i, t := range ts {
				vs[i] = t
			}
			return vs
		}
	}
	reg(rtPkg+".Bytes", bytesFn(false))
	reg(rtPkg+".Str", bytesFn(true))
	reg(rtPkg+".Len", func(in *Interp, fr *frame, fn *ssa.Function, args []Value) Value {
		tag := in.argStr(args[0], "rt tag")
		lo := in.concreteInt(args[1], "rt.Len lo")
		hi := in.concreteInt(args[2], "rt.Len hi")
		k := in.choice(hi - lo + 1)
		in.record(tag, "len", nil, lo+k)
		return in.tb.BV(64, uint64(lo+k))
	})
	reg(rtPkg+".Choice", func(in *Interp, fr *frame, fn *ssa.Function, args []Value) Value {
		tag := in.argStr(args[0], "rt tag")
		n := in.concreteInt(args[1], "rt.Choice n")
		k := in.choice(n)
		in.record(tag, "choice", nil, k)
		return in.tb.BV(64, uint64(k))
	})
	reg(rtPkg+".Assume", func(in *Interp, fr *frame, fn *ssa.Function, args []Value) Value {
		c := args[0].(*T)
		if c.IsConst() {
			if c.k == 0 {
				panic(pathStop{"assume", "assumption false"})
			}
			return nil
		}
		// the assumption must be satisfiable together with the path condition
		in.assume(c)
		if in.pos < len(in.prefix) {
			return nil // replaying the parent path's prefix: feasibility was established there
		}
		if r := in.sol.Check(); r == "unsat" {
			panic(pathStop{"assume", "assumption infeasible"})
		}
		return nil
	})
	reg(rtPkg+".Assert", func(in *Interp, fr *frame, fn *ssa.Function, args []Value) Value {
		c := args[0].(*T)
		tag := in.argStr(args[1], "assert tag")
		in.vc(c, tag, tag)
		return nil
	})
	reg(rtPkg+".Cover", func(in *Interp, fr *frame, fn *ssa.Function, args []Value) Value {
		in.covers[in.argStr(args[0], "cover tag")] = true
		return nil
	})
	reg(rtPkg+".Param", func(in *Interp, fr *frame, fn *ssa.Function, args []Value) Value {
		name := in.argStr(args[0], "param name")
		def := in.concreteInt(args[1], "param default")
		if v, ok := in.cfg.Params[name]; ok {
			def = v
		}
		return in.tb.BV(64, uint64(int64(def)))
	})
	reg(rtPkg+".Symbolic", func(in *Interp, fr *frame, fn *ssa.Function, args []Value) Value {
		return in.tb.tru
	})
	reg(rtPkg+".Ite64", func(in *Interp, fr *frame, fn *ssa.Function, args []Value) Value {
		return in.tb.Ite(args[0].(*T), args[1].(*T), args[2].(*T))
	})
	reg(rtPkg+".And", func(in *Interp, fr *frame, fn *ssa.Function, args []Value) Value {
		return in.tb.And(args[0].(*T), args[1].(*T))
	})
	reg(rtPkg+".Or", func(in *Interp, fr *frame, fn *ssa.Function, args []Value) Value {
		return in.tb.Or(args[0].(*T), args[1].(*T))
	})
	reg(rtPkg+".Implies", func(in *Interp, fr *frame, fn *ssa.Function, args []Value) Value {
		return in.tb.Or(in.tb.Not(args[0].(*T)), args[1].(*T))
	})
	reg(rtPkg+".BytesEq", func(in *Interp, fr *frame, fn *ssa.Function, args []Value) Value {
		a, b := args[0].([]Value), args[1].([]Value)
		if len(a) != len(b) {
			return in.tb.fls
		}
		r := in.tb.tru
		for i := range a {
			r = in.tb.And(r, in.tb.Eq(a[i].(*T), b[i].(*T)))
		}
		return r
	})
	reg(rtPkg+".Unsupported", func(in *Interp, fr *frame, fn *ssa.Function, args []Value) Value {
		in.unsupported("model: %s", in.argStr(args[0], "reason"))
		return nil
	})
	reg(rtPkg+".Native", func(in *Interp, fr *frame, fn *ssa.Function, args []Value) Value { return in.tb.fls })
	reg(rtPkg+".ExpectPanic", func(in *Interp, fr *frame, fn *ssa.Function, args []Value) Value {
		in.expectPanic = true
		return nil
	})

	// sync: single goroutine
	for _, n := range []string{
		"(*sync.Mutex).Lock", "(*sync.Mutex).Unlock", "(*sync.RWMutex).Lock", "(*sync.RWMutex).Unlock",
		"(*sync.RWMutex).RLock", "(*sync.RWMutex).RUnlock", "(*sync.WaitGroup).Add", "(*sync.WaitGroup).Done",
		"(*sync.WaitGroup).Wait", "(*sync.Cond).Signal", "(*sync.Cond).Broadcast", "runtime.Gosched", "runtime.GC",
		"runtime.KeepAlive", "runtime.SetFinalizer", "time.Sleep", "(*sync.Pool).Put",
	} {
		reg(n, func(in *Interp, fr *frame, fn *ssa.Function, args []Value) Value { return nil })
	}
	for _, n := range []string{"internal/testlog.Getenv", "internal/testlog.Open", "internal/testlog.Stat"} {
		reg(n, func(in *Interp, fr *frame, fn *ssa.Function, args []Value) Value { return nil })
	}
	reg("(*sync.Mutex).TryLock", func(in *Interp, fr *frame, fn *ssa.Function, args []Value) Value { return in.tb.tru })
	reg("(*sync.Cond).Wait", func(in *Interp, fr *frame, fn *ssa.Function, args []Value) Value {
		in.unsupported("sync.Cond.Wait would block (single-goroutine model)")
		return nil
	})
	reg("(*sync.Once).Do", func(in *Interp, fr *frame, fn *ssa.Function, args []Value) Value {
		p := args[0].(*Value)
		st := (*p).(Struct)
		// sync.Once{done atomic.Uint32 / uint32; m Mutex}: use field 0 as a flag whatever its shape
		if flagSet(st[0]) {
			return nil
		}
		st[0] = setFlag(in, st[0])
		in.call(fr, args[1], nil)
		return nil
	})
	reg("(*sync.Pool).Get", func(in *Interp, fr *frame, fn *ssa.Function, args []Value) Value {
		p := args[0].(*Value)
		st := (*p).(Struct)
		// field "New" is the last field
		newf := st[len(st)-1]
		if f, ok := newf.(*ssa.Function); ok && f == nil {
			return Iface{}
		}
		return in.call(fr, newf, nil)
	})
	// sync/atomic on plain cells
	atomicLoad := func(in *Interp, fr *frame, fn *ssa.Function, args []Value) Value {
		return copyVal(*(args[0].(*Value)))
	}
	atomicStore := func(in *Interp, fr *frame, fn *ssa.Function, args []Value) Value {
		*(args[0].(*Value)) = args[1]
		return nil
	}
	atomicAdd := func(in *Interp, fr *frame, fn *ssa.Function, args []Value) Value {
		p := args[0].(*Value)
		n := in.tb.Add((*p).(*T), args[1].(*T))
		*p = n
		return n
	}
	atomicCAS := func(in *Interp, fr *frame, fn *ssa.Function, args []Value) Value {
		p := args[0].(*Value)
		eq := in.valueEq(*p, args[1])
		if in.branch(eq) {
			*p = args[2]
			return in.tb.tru
		}
		return in.tb.fls
	}
	atomicSwap := func(in *Interp, fr *frame, fn *ssa.Function, args []Value) Value {
		p := args[0].(*Value)
		old := *p
		*p = args[1]
		return old
	}
	for _, ty := range []string{"Int32", "Int64", "Uint32", "Uint64", "Uintptr", "Pointer"} {
		reg("sync/atomic.Load"+ty, atomicLoad)
		reg("sync/atomic.Store"+ty, atomicStore)
		reg("sync/atomic.Add"+ty, atomicAdd)
		reg("sync/atomic.CompareAndSwap"+ty, atomicCAS)
		reg("sync/atomic.Swap"+ty, atomicSwap)
	}
	// atomic.Int32 etc. method forms: struct{_ noCopy; v int32} -> field named v is the last
	for _, ty := range []string{"Int32", "Int64", "Uint32", "Uint64", "Bool"} {
		ty := ty
		cell := func(v Value) *Value {
			st := (*(v.(*Value))).(Struct)
			return &st[len(st)-1]
		}
		reg("(*sync/atomic."+ty+").Load", func(in *Interp, fr *frame, fn *ssa.Function, args []Value) Value {
			v := *cell(args[0])
			if ty == "Bool" {
				return in.tb.Not(in.tb.Eq(v.(*T), in.tb.BV(32, 0)))
			}
			return v
		})
		reg("(*sync/atomic."+ty+").Store", func(in *Interp, fr *frame, fn *ssa.Function, args []Value) Value {
			if ty == "Bool" {
				*cell(args[0]) = in.tb.Ite(args[1].(*T), in.tb.BV(32, 1), in.tb.BV(32, 0))
				return nil
			}
			*cell(args[0]) = args[1]
			return nil
		})
		reg("(*sync/atomic."+ty+").Add", func(in *Interp, fr *frame, fn *ssa.Function, args []Value) Value {
			c := cell(args[0])
			n := in.tb.Add((*c).(*T), args[1].(*T))
			*c = n
			return n
		})
		reg("(*sync/atomic."+ty+").CompareAndSwap", func(in *Interp, fr *frame, fn *ssa.Function, args []Value) Value {
			c := cell(args[0])
			if in.branch(in.valueEq(*c, args[1])) {
				*c = args[2]
				return in.tb.tru
			}
			return in.tb.fls
		})
	}

	// errors.Is / errors.As: pointer/value equality along the Unwrap chain
	reg("errors.Is", func(in *Interp, fr *frame, fn *ssa.Function, args []Value) Value {
		err, target := args[0].(Iface), args[1].(Iface)
		for depth := 0; depth < 10; depth++ {
			if err.t == nil || target.t == nil {
				return in.tb.Bool(err.t == nil && target.t == nil)
			}
			if types.Identical(err.t, target.t) && comparableValue(err.v) {
				eq := in.valueEq(err.v, target.v)
				if in.branch(eq) {
					return in.tb.tru
				}
			}
			m := in.prog.LookupMethod(err.t, nil, "Unwrap")
			if m == nil || m.Signature.Results().Len() != 1 {
				return in.tb.fls
			}
			if _, ok := m.Signature.Results().At(0).Type().Underlying().(*types.Interface); !ok {
				return in.tb.fls
			}
			next := in.call(fr, m, []Value{err.v})
			err = next.(Iface)
		}
		return in.tb.fls
	})

	// unsafe / internal helpers used by strings.Builder etc.
	reg("internal/abi.NoEscape", func(in *Interp, fr *frame, fn *ssa.Function, args []Value) Value { return args[0] })
	reg("strings.noescape", func(in *Interp, fr *frame, fn *ssa.Function, args []Value) Value { return args[0] })
	reg("(*strings.Builder).copyCheck", func(in *Interp, fr *frame, fn *ssa.Function, args []Value) Value { return nil })
	reg("internal/bytealg.MakeNoZero", func(in *Interp, fr *frame, fn *ssa.Function, args []Value) Value {
		n := in.concreteInt(args[0], "MakeNoZero")
		s := make([]Value, n)
		for i := range s {
			s[i] = in.tb.bytes[0]
		}
		return s
	})
	reg("internal/race.Enabled", nil)
	delete(intrinsics, "internal/race.Enabled")

	pkgIntrinsics["github.com/chrislusf/seaweedfs/weed/glog"] = func(in *Interp, fr *frame, fn *ssa.Function, args []Value) (Value, bool) {
		switch fn.Name() {
		case "V":
			return in.tb.fls, true
		case "Fatal", "Fatalf", "Fatalln", "Exit", "Exitf", "Exitln", "FatalDepth":
			panic(goPanic{v: in.mkStr("glog.Fatal"), msg: "glog.Fatal called in " + callerName(fr)})
		}
		return in.zeroResult(fn.Signature), true
	}
	pkgIntrinsics["internal/race"] = func(in *Interp, fr *frame, fn *ssa.Function, args []Value) (Value, bool) {
		return in.zeroResult(fn.Signature), true
	}
}

func callerName(fr *frame) string {
	if fr == nil {
		return "?"
	}
	return fr.fn.String()
}

func comparableValue(v Value) bool {
	switch v.(type) {
	case []Value, *Map, *Closure:
		return false
	}
	return true
}

func flagSet(v Value) bool {
	switch v := v.(type) {
	case *T:
		return v.IsConst() && v.k != 0
	case Struct:
		return flagSet(v[len(v)-1])
	}
	return false
}

func setFlag(in *Interp, v Value) Value {
	switch v := v.(type) {
	case *T:
		return in.tb.BV(v.w, 1)
	case Struct:
		n := make(Struct, len(v))
		copy(n, v)
		n[len(v)-1] = setFlag(in, v[len(v)-1])
		return n
	}
	return v
}

// tryMerge is the diamond-merging hook (see merge.go).
func (in *Interp) unsafeString(fr *frame, args []Value) Value {
	n := in.concreteInt(args[1], "unsafe.String len")
	if n == 0 {
		return Str{}
	}
	p, ok := args[0].(*Value)
	if !ok || p == nil {
		in.unsupported("unsafe.String of %T", args[0])
	}
	arr := in.backing(p)
	if arr == nil || len(arr) < n {
		in.unsupported("unsafe.String: cannot find backing array")
	}
	b := make([]*T, n)
	for i := 0; i < n; i++ {
		b[i] = arr[i].(*T)
	}
	return Str{b: b}
}

// backing finds the slice that starts at element pointer p (recorded by unsafeData).
func (in *Interp) backing(p *Value) []Value {
	if in.ghost == nil {
		return nil
	}
	if v, ok := in.ghost[fmt.Sprintf("backing:%p", p)]; ok {
		return v.([]Value)
	}
	return nil
}

func (in *Interp) unsafeData(fr *frame, x Value) Value {
	switch x := x.(type) {
	case []Value:
		if len(x) == 0 {
			if cap(x) == 0 {
				return (*Value)(nil)
			}
			x = x[:1]
			p := &x[0]
			in.ghost[fmt.Sprintf("backing:%p", p)] = x[:cap(x)]
			return p
		}
		p := &x[0]
		in.ghost[fmt.Sprintf("backing:%p", p)] = x[:cap(x)]
		return p
	case Str:
		arr := make([]Value, len(x.b))
		for i, b := range x.b {
			arr[i] = b
		}
		if len(arr) == 0 {
			return (*Value)(nil)
		}
		p := &arr[0]
		in.ghost[fmt.Sprintf("backing:%p", p)] = arr
		return p
	}
	in.unsupported("unsafe data of %T", x)
	return nil
}

func (in *Interp) unsafeSlice(fr *frame, args []Value) Value {
	n := in.concreteInt(args[1], "unsafe.Slice len")
	p, ok := args[0].(*Value)
	if !ok {
		in.unsupported("unsafe.Slice of %T", args[0])
	}
	if p == nil {
		return []Value(nil)
	}
	arr := in.backing(p)
	if arr == nil || len(arr) < n {
		in.unsupported("unsafe.Slice: cannot find backing array")
	}
	return arr[:n:n]
}
