package main

// Environment models: fmt, in-memory file system behind *os.File, clock, randomness,
// CRC as an uninterpreted function, string search leaves, sort.Slice.

import (
	"math"
	"fmt"
	"go/types"
	"strconv"
	"strings"

	"golang.org/x/tools/go/ssa"
)

// ---------------------------------------------------------------- helpers

func (in *Interp) namedType(pkgPath, name string) types.Type {
	p := in.prog.ImportedPackage(pkgPath)
	if p == nil {
		in.unsupported("package %s not loaded", pkgPath)
	}
	m := p.Type(name)
	if m == nil {
		in.unsupported("type %s.%s not found", pkgPath, name)
	}
	return m.Type()
}

func (in *Interp) mkError(msg Str, wrapped *Iface) Value {
	if wrapped != nil {
		t := in.namedType("fmt", "wrapError")
		p := new(Value)
		*p = Struct{msg, *wrapped}
		return Iface{t: types.NewPointer(t), v: p}
	}
	t := in.namedType("errors", "errorString")
	p := new(Value)
	*p = Struct{msg}
	return Iface{t: types.NewPointer(t), v: p}
}

func (in *Interp) bytesOf(v Value) []*T {
	switch v := v.(type) {
	case Str:
		if v.opaque {
			in.unsupported("inspection of opaque string %s", v.otag)
		}
		return v.b
	case []Value:
		r := make([]*T, len(v))
		for i, x := range v {
			r[i] = x.(*T)
		}
		return r
	}
	in.unsupported("bytesOf %T", v)
	return nil
}

func (in *Interp) int64v(i int) *T { return in.tb.BV(64, uint64(int64(i))) }

// indexOf returns the first index of needle in hay as a 64-bit term (-1 if absent).
func (in *Interp) indexOf(hay, needle []*T, last bool) *T {
	tb := in.tb
	res := in.int64v(-1)
	n, m := len(hay), len(needle)
	if m > n {
		return res
	}
	matchAt := func(i int) *T {
		r := tb.tru
		for j := 0; j < m; j++ {
			r = tb.And(r, tb.Eq(hay[i+j], needle[j]))
			if r == tb.fls {
				break
			}
		}
		return r
	}
	if last {
		for i := 0; i <= n-m; i++ {
			res = tb.Ite(matchAt(i), in.int64v(i), res)
		}
	} else {
		for i := n - m; i >= 0; i-- {
			res = tb.Ite(matchAt(i), in.int64v(i), res)
		}
	}
	return res
}

// ---------------------------------------------------------------- fmt

type fmtPiece struct {
	s      Str
	opaque bool
}

// formatValue renders one operand for %v/%s/%d...; ok=false means "not exactly representable".
func (in *Interp) formatValue(fr *frame, verb byte, flags string, arg Value) (Str, bool) {
	itf, isI := arg.(Iface)
	var v Value = arg
	var t types.Type
	if isI {
		if itf.t == nil {
			return in.mkStr("<nil>"), true
		}
		v, t = itf.v, itf.t
	}
	// error / Stringer for %v %s %q
	if t != nil && in.fmtLazy && (verb == 'v' || verb == 's' || verb == 'q') {
		// inside Errorf: messages built from other errors / Stringers are never inspected; keep them opaque
		if _, isStr := v.(Str); !isStr {
			tv, isT := v.(*T)
			if !isT {
				return Str{}, false
			}
			if !tv.IsConst() && in.prog.MethodSets.MethodSet(t).Lookup(nil, "String") != nil {
				return Str{}, false // e.g. a symbolic time.Duration: its String() loops over digits
			}
		}
	}
	if t != nil && (verb == 'v' || verb == 's' || verb == 'q') {
		if _, isPoison := v.(Poison); isPoison {
			return Str{}, false
		}
		for _, mname := range []string{"Error", "String"} {
			ms := in.prog.MethodSets.MethodSet(t)
			for i := 0; i < ms.Len(); i++ {
				sel := ms.At(i)
				if sel.Obj().Name() == mname {
					sig := sel.Type().(*types.Signature)
					if sig.Params().Len() == 0 && sig.Results().Len() == 1 && isString(sig.Results().At(0).Type()) {
						if p, ok := v.(*Value); ok && p == nil {
							return in.mkStr("<nil>"), true
						}
						f := in.prog.MethodValue(sel)
						if f != nil {
							r := in.call(fr, f, []Value{v})
							if s, ok := r.(Str); ok {
								return s, !s.opaque
							}
						}
					}
				}
			}
		}
	}
	switch x := v.(type) {
	case Str:
		if x.opaque {
			return x, false
		}
		if verb == 'q' {
			if c, ok := x.concrete(); ok {
				return in.mkStr(fmt.Sprintf("%q", c)), true
			}
			return Str{}, false
		}
		if verb == 'x' || verb == 'X' {
			if c, ok := x.concrete(); ok {
				return in.mkStr(fmt.Sprintf("%"+flags+string(verb), c)), true
			}
			return Str{}, false
		}
		if flags != "" {
			if c, ok := x.concrete(); ok {
				return in.mkStr(fmt.Sprintf("%"+flags+"s", c)), true
			}
			return Str{}, false
		}
		return x, true
	case *T:
		if !x.IsConst() {
			if x.w != 0 && (verb == 'd' || verb == 'v') {
				// symbolic decimal: fork on the digit count, then pad
				signed := t != nil && isSigned(t)
				x64 := x
				if x.w < 64 {
					if signed {
						x64 = in.tb.SExt(x, 64)
					} else {
						x64 = in.tb.ZExt(x, 64)
					}
				}
				s := in.formatInt(x64, signed).(Str)
				if flags == "" {
					return s, true
				}
				zero := strings.HasPrefix(flags, "0")
				if wdt, err := strconv.Atoi(strings.TrimPrefix(flags, "0")); err == nil && len(s.b) > 0 && !(s.b[0].IsConst() && s.b[0].k == '-') {
					pad := in.tb.bytes[' ']
					if zero {
						pad = in.tb.bytes['0']
					}
					b := s.b
					for len(b) < wdt {
						b = append([]*T{pad}, b...)
					}
					return Str{b: b}, true
				}
			}
			return Str{}, false
		}
		if x.w == 0 {
			return in.mkStr(fmt.Sprintf("%"+flags+"v", x.k == 1)), true
		}
		signed := t != nil && isSigned(t)
		f := "%" + flags + string(verb)
		if verb == 's' {
			f = "%" + flags + "d"
		}
		if signed {
			return in.mkStr(fmt.Sprintf(f, sext64(x.k, x.w))), true
		}
		return in.mkStr(fmt.Sprintf(f, x.k)), true
	case F64:
		return in.mkStr(fmt.Sprintf("%"+flags+string(verb), float64(x))), true
	case F32:
		return in.mkStr(fmt.Sprintf("%"+flags+string(verb), float32(x))), true
	case []Value:
		// []byte with %s / %x
		if t != nil {
			if sl, ok := t.Underlying().(*types.Slice); ok {
				if b, ok := sl.Elem().Underlying().(*types.Basic); ok && b.Kind() == types.Uint8 {
					bs := in.bytesOf(x)
					if verb == 's' || verb == 'v' && false {
						return Str{b: bs}, true
					}
					if c, ok := (Str{b: bs}).concrete(); ok {
						return in.mkStr(fmt.Sprintf("%"+flags+string(verb), []byte(c))), true
					}
				}
			}
		}
	}
	return Str{}, false
}

func (in *Interp) sprintf(fr *frame, format Str, args []Value) (Str, *Iface) {
	f, ok := format.concrete()
	if !ok {
		return Str{opaque: true, otag: "symbolic-format"}, nil
	}
	var out []*T
	opaque := false
	var wrapped *Iface
	ai := 0
	for i := 0; i < len(f); i++ {
		c := f[i]
		if c != '%' {
			out = append(out, in.tb.bytes[c])
			continue
		}
		i++
		if i >= len(f) {
			break
		}
		if f[i] == '%' {
			out = append(out, in.tb.bytes['%'])
			continue
		}
		j := i
		for j < len(f) && strings.IndexByte("+-# 0123456789.", f[j]) >= 0 {
			j++
		}
		if j >= len(f) {
			break
		}
		flags, verb := f[i:j], f[j]
		i = j
		if ai >= len(args) {
			out = append(out, in.mkStr("%!"+string(verb)+"(MISSING)").b...)
			continue
		}
		arg := args[ai]
		ai++
		if verb == 'w' {
			if itf, ok := arg.(Iface); ok {
				w := itf
				wrapped = &w
			}
			verb = 'v'
		}
		s, exact := in.formatValue(fr, verb, flags, arg)
		if !exact {
			opaque = true
			continue
		}
		out = append(out, s.b...)
	}
	if opaque {
		return Str{opaque: true, otag: f}, wrapped
	}
	return Str{b: out}, wrapped
}

func (in *Interp) sprint(fr *frame, args []Value, spaces bool, nl bool) Str {
	var out []*T
	for i, a := range args {
		if i > 0 && spaces {
			out = append(out, in.tb.bytes[' '])
		}
		s, exact := in.formatValue(fr, 'v', "", a)
		if !exact {
			return Str{opaque: true, otag: "sprint"}
		}
		out = append(out, s.b...)
	}
	if nl {
		out = append(out, in.tb.bytes['\n'])
	}
	return Str{b: out}
}

func (in *Interp) writeTo(fr *frame, w Value, s Str) Value {
	itf, ok := w.(Iface)
	if !ok || itf.t == nil {
		in.unsupported("Fprintf to %T", w)
	}
	if s.opaque {
		in.unsupported("Fprintf of opaque string %q to a writer", s.otag)
	}
	f := in.prog.LookupMethod(itf.t, nil, "Write")
	if f == nil {
		in.unsupported("writer %v has no Write", itf.t)
	}
	bs := make([]Value, len(s.b))
	for i, b := range s.b {
		bs[i] = b
	}
	return in.call(fr, f, []Value{itf.v, bs})
}

func init() {
	reg("fmt.Sprintf", func(in *Interp, fr *frame, fn *ssa.Function, args []Value) Value {
		s, _ := in.sprintf(fr, args[0].(Str), args[1].([]Value))
		return s
	})
	reg("fmt.Errorf", func(in *Interp, fr *frame, fn *ssa.Function, args []Value) Value {
		in.fmtLazy = true
		s, w := in.sprintf(fr, args[0].(Str), args[1].([]Value))
		in.fmtLazy = false
		return in.mkError(s, w)
	})
	reg("(*strconv.NumError).Error", func(in *Interp, fr *frame, fn *ssa.Function, args []Value) Value {
		return Str{opaque: true, otag: "strconv.NumError"}
	})
	reg("fmt.Sprint", func(in *Interp, fr *frame, fn *ssa.Function, args []Value) Value {
		return in.sprint(fr, args[0].([]Value), false, false)
	})
	reg("fmt.Sprintln", func(in *Interp, fr *frame, fn *ssa.Function, args []Value) Value {
		return in.sprint(fr, args[0].([]Value), true, true)
	})
	reg("fmt.Fprintf", func(in *Interp, fr *frame, fn *ssa.Function, args []Value) Value {
		s, _ := in.sprintf(fr, args[1].(Str), args[2].([]Value))
		return in.writeTo(fr, args[0], s)
	})
	reg("fmt.Fprint", func(in *Interp, fr *frame, fn *ssa.Function, args []Value) Value {
		return in.writeTo(fr, args[0], in.sprint(fr, args[1].([]Value), false, false))
	})
	reg("fmt.Fprintln", func(in *Interp, fr *frame, fn *ssa.Function, args []Value) Value {
		return in.writeTo(fr, args[0], in.sprint(fr, args[1].([]Value), true, true))
	})
	noop2 := func(in *Interp, fr *frame, fn *ssa.Function, args []Value) Value {
		return Tuple{in.tb.BV(64, 0), Iface{}}
	}
	reg("fmt.Printf", noop2)
	reg("fmt.Println", noop2)
	reg("fmt.Print", noop2)

	// ---- string search leaves
	idx := func(last bool) intrinsic {
		return func(in *Interp, fr *frame, fn *ssa.Function, args []Value) Value {
			return in.indexOf(in.bytesOf(args[0]), in.bytesOf(args[1]), last)
		}
	}
	for _, n := range []string{"strings.Index", "bytes.Index", "internal/bytealg.Index", "internal/bytealg.IndexString"} {
		reg(n, idx(false))
	}
	reg("strings.LastIndex", idx(true))
	reg("bytes.LastIndex", idx(true))
	idxb := func(last bool) intrinsic {
		return func(in *Interp, fr *frame, fn *ssa.Function, args []Value) Value {
			return in.indexOf(in.bytesOf(args[0]), []*T{args[1].(*T)}, last)
		}
	}
	for _, n := range []string{"strings.IndexByte", "bytes.IndexByte", "internal/bytealg.IndexByte", "internal/bytealg.IndexByteString"} {
		reg(n, idxb(false))
	}
	reg("strings.LastIndexByte", idxb(true))
	reg("bytes.LastIndexByte", idxb(true))
	contains := func(in *Interp, fr *frame, fn *ssa.Function, args []Value) Value {
		i := in.indexOf(in.bytesOf(args[0]), in.bytesOf(args[1]), false)
		return in.tb.Not(in.tb.Eq(i, in.int64v(-1)))
	}
	reg("strings.Contains", contains)
	reg("bytes.Contains", contains)
	count := func(in *Interp, fr *frame, fn *ssa.Function, args []Value) Value {
		hay := in.bytesOf(args[0])
		c := args[1].(*T)
		res := in.tb.BV(64, 0)
		for _, h := range hay {
			res = in.tb.Add(res, in.tb.Ite(in.tb.Eq(h, c), in.tb.BV(64, 1), in.tb.BV(64, 0)))
		}
		return res
	}
	reg("internal/bytealg.Count", count)
	reg("internal/bytealg.CountString", count)
	reg("internal/bytealg.Equal", func(in *Interp, fr *frame, fn *ssa.Function, args []Value) Value {
		return in.valueEq(Str{b: in.bytesOf(args[0])}, Str{b: in.bytesOf(args[1])})
	})
	reg("bytes.Equal", func(in *Interp, fr *frame, fn *ssa.Function, args []Value) Value {
		return in.valueEq(Str{b: in.bytesOf(args[0])}, Str{b: in.bytesOf(args[1])})
	})
	cmp := func(in *Interp, fr *frame, fn *ssa.Function, args []Value) Value {
		a, b := Str{b: in.bytesOf(args[0])}, Str{b: in.bytesOf(args[1])}
		lt := in.strLess(a, b, false)
		eq := in.valueEq(a, b)
		return in.tb.Ite(lt, in.int64v(-1), in.tb.Ite(eq, in.int64v(0), in.int64v(1)))
	}
	reg("internal/bytealg.Compare", cmp)
	reg("bytes.Compare", cmp)
	reg("strings.Compare", cmp)
	reg("internal/bytealg.CompareString", cmp)
	reg("internal/stringslite.Index", idx(false))
	reg("internal/stringslite.IndexByte", idxb(false))

	// ---- strconv formatting of symbolic integers (base 10): fork on the digit count
	reg("strconv.Itoa", func(in *Interp, fr *frame, fn *ssa.Function, args []Value) Value {
		return in.formatInt(args[0].(*T), true)
	})
	reg("strconv.FormatInt", func(in *Interp, fr *frame, fn *ssa.Function, args []Value) Value {
		t := args[0].(*T)
		base := in.concreteInt(args[1], "FormatInt base")
		if t.IsConst() || base != 10 {
			if !t.IsConst() {
				in.unsupported("FormatInt of a symbolic value in base %d", base)
			}
			return in.mkStr(strconv.FormatInt(int64(t.k), base))
		}
		return in.formatInt(t, true)
	})
	reg("strconv.FormatUint", func(in *Interp, fr *frame, fn *ssa.Function, args []Value) Value {
		t := args[0].(*T)
		base := in.concreteInt(args[1], "FormatUint base")
		if t.IsConst() || base != 10 {
			if !t.IsConst() {
				in.unsupported("FormatUint of a symbolic value in base %d", base)
			}
			return in.mkStr(strconv.FormatUint(t.k, base))
		}
		if in.cfg.Params["numstr"] == 1 {
			// kept as an opaque numeric string that ParseUint inverts (trusted: strconv round-trip)
			return Str{opaque: true, otag: "decimal", num: t}
		}
		return in.formatInt(t, false)
	})
	clone := func(in *Interp, fr *frame, fn *ssa.Function, args []Value) Value { return args[0] }
	reg("internal/stringslite.Clone", clone)
	reg("strings.Clone", clone)
	reg("strconv.cloneString", clone)

	// ---- strings.Split with a one-byte separator: fork on which bytes are separators
	reg("strings.Split", func(in *Interp, fr *frame, fn *ssa.Function, args []Value) Value {
		s, sep := args[0].(Str), args[1].(Str)
		if s.opaque || sep.opaque || len(sep.b) != 1 {
			if cs, ok := s.concrete(); ok {
				if cp, ok2 := sep.concrete(); ok2 {
					var out []Value
					for _, part := range strings.Split(cs, cp) {
						out = append(out, in.mkStr(part))
					}
					return out
				}
			}
			in.unsupported("strings.Split with a symbolic multi-byte separator")
		}
		out := []Value{}
		start := 0
		for i, b := range s.b {
			if in.branch(in.tb.Eq(b, sep.b[0])) {
				out = append(out, Str{b: s.b[start:i]})
				start = i + 1
			}
		}
		out = append(out, Str{b: s.b[start:]})
		return out
	})

	// ---- sort.Slice family: insertion sort calling the real less closure
	sortSlice := func(in *Interp, fr *frame, fn *ssa.Function, args []Value) Value {
		itf := args[0].(Iface)
		s, ok := itf.v.([]Value)
		if !ok {
			in.unsupported("sort.Slice of %T", itf.v)
		}
		less := args[1]
		for i := 1; i < len(s); i++ {
			for j := i; j > 0; j-- {
				r := in.call(fr, less, []Value{in.int64v(j), in.int64v(j - 1)}).(*T)
				if !in.branch(r) {
					break
				}
				s[j], s[j-1] = s[j-1], s[j]
			}
		}
		return nil
	}
	reg("sort.Slice", sortSlice)
	reg("sort.SliceStable", sortSlice)

	// ---- CRC: uninterpreted, per input length
	crcUpdate := func(in *Interp, fr *frame, fn *ssa.Function, args []Value) Value {
		// Update(crc uint32, tab *Table, p []byte) uint32
		prev := args[0].(*T)
		bs := in.bytesOf(args[2])
		return in.crc(prev, bs)
	}
	reg("context.WithTimeout", func(in *Interp, fr *frame, fn *ssa.Function, args []Value) Value {
		return Tuple{args[0], &boundBuiltin{obj: &builtinObj{kind: "noop"}, method: "cancel"}}
	})
	reg("context.WithCancel", func(in *Interp, fr *frame, fn *ssa.Function, args []Value) Value {
		return Tuple{args[0], &boundBuiltin{obj: &builtinObj{kind: "noop"}, method: "cancel"}}
	})
	reg("context.WithDeadline", func(in *Interp, fr *frame, fn *ssa.Function, args []Value) Value {
		return Tuple{args[0], &boundBuiltin{obj: &builtinObj{kind: "noop"}, method: "cancel"}}
	})
	reg(rtPkg+".TempDir", func(in *Interp, fr *frame, fn *ssa.Function, args []Value) Value {
		// a fresh directory per call (the first keeps the historic name)
		in.tmpDirs++
		if in.tmpDirs == 1 {
			return in.mkStr("/veriftmp")
		}
		return in.mkStr(fmt.Sprintf("/veriftmp%d", in.tmpDirs))
	})
	// io.Copy / io.CopyN through the Read and Write methods of the operands
	reg("io.Copy", func(in *Interp, fr *frame, fn *ssa.Function, args []Value) Value {
		return in.ioCopy(fr, args[0], args[1], -1)
	})
	reg("io.CopyN", func(in *Interp, fr *frame, fn *ssa.Function, args []Value) Value {
		return in.ioCopy(fr, args[0], args[1], in.concreteInt(args[2], "CopyN n"))
	})
	reg(rtPkg+".CRC32C", func(in *Interp, fr *frame, fn *ssa.Function, args []Value) Value {
		return in.crc(args[0].(*T), in.bytesOf(args[1]))
	})
	reg("hash/crc32.Update", crcUpdate)
	reg("github.com/klauspost/crc32.Update", crcUpdate)
	mkTable := func(in *Interp, fr *frame, fn *ssa.Function, args []Value) Value {
		p := new(Value)
		*p = Array(nil)
		return p
	}
	reg("hash/crc32.MakeTable", mkTable)
	reg("github.com/klauspost/crc32.MakeTable", mkTable)
	crcChecksum := func(in *Interp, fr *frame, fn *ssa.Function, args []Value) Value {
		return in.crc(in.tb.BV(32, 0), in.bytesOf(args[0]))
	}
	reg("hash/crc32.Checksum", crcChecksum)
	reg("github.com/klauspost/crc32.Checksum", crcChecksum)
	reg("hash/crc32.ChecksumIEEE", crcChecksum)

	// ---- randomness
	reg("math/rand.Intn", func(in *Interp, fr *frame, fn *ssa.Function, args []Value) Value {
		n := args[0].(*T)
		v := in.freshVar("rand.Intn", 64)
		in.record("rand.Intn", "rand", []*T{v}, 0)
		in.assume(in.tb.And(in.tb.SLe(in.tb.BV(64, 0), v), in.tb.SLt(v, n)))
		return v
	})
	reg("math/rand.Int63n", intrinsics["math/rand.Intn"])
	reg("math/rand.Int31n", func(in *Interp, fr *frame, fn *ssa.Function, args []Value) Value {
		n := args[0].(*T)
		v := in.freshVar("rand.Int31n", 32)
		in.record("rand.Int31n", "rand", []*T{v}, 0)
		in.assume(in.tb.And(in.tb.SLe(in.tb.BV(32, 0), v), in.tb.SLt(v, n)))
		return v
	})
	reg("math/rand.Uint32", func(in *Interp, fr *frame, fn *ssa.Function, args []Value) Value {
		v := in.freshVar("rand.Uint32", 32)
		in.record("rand.Uint32", "rand", []*T{v}, 0)
		return v
	})
	reg("math/rand.Int", func(in *Interp, fr *frame, fn *ssa.Function, args []Value) Value {
		v := in.freshVar("rand.Int", 64)
		in.record("rand.Int", "rand", []*T{v}, 0)
		in.assume(in.tb.SLe(in.tb.BV(64, 0), v))
		return v
	})
	reg("math/rand.Seed", func(in *Interp, fr *frame, fn *ssa.Function, args []Value) Value { return nil })

	// ---- clock: time.Time keeps its real layout {wall, ext, loc}; Now() is symbolic and monotone
	reg("time.Now", func(in *Interp, fr *frame, fn *ssa.Function, args []Value) Value {
		return in.now()
	})
	reg(rtPkg+".Now", func(in *Interp, fr *frame, fn *ssa.Function, args []Value) Value {
		return in.now()
	})
	// hashes: unconstrained fresh bytes per call (an over-approximation: equal inputs may give different digests)
	freshDigest := func(n int, asArray bool) intrinsic {
		return func(in *Interp, fr *frame, fn *ssa.Function, args []Value) Value {
			vs := make([]Value, n)
			for i := range vs {
				vs[i] = in.freshVar("digest", 8)
			}
			if asArray {
				return Array(vs)
			}
			return vs
		}
	}
	reg("github.com/chrislusf/seaweedfs/weed/util.Md5", freshDigest(16, false))
	reg("crypto/md5.Sum", freshDigest(16, true))
	reg("crypto/sha256.Sum256", freshDigest(32, true))
	reg("crypto/sha1.Sum", freshDigest(20, true))
	reg("internal/reflectlite.TypeOf", func(in *Interp, fr *frame, fn *ssa.Function, args []Value) Value {
		return Iface{t: types.NewPointer(in.namedType("internal/reflectlite", "rtype")), v: &builtinObj{kind: "rtype"}}
	})
	reg("reflect.TypeOf", func(in *Interp, fr *frame, fn *ssa.Function, args []Value) Value {
		// reflection is not modelled: the result may be passed around but not used
		return Iface{}
	})
	reg("os.Getuid", func(in *Interp, fr *frame, fn *ssa.Function, args []Value) Value { return in.tb.BV(64, 1000) })
	reg("os.Getgid", func(in *Interp, fr *frame, fn *ssa.Function, args []Value) Value { return in.tb.BV(64, 1000) })
	reg("os.Getpid", func(in *Interp, fr *frame, fn *ssa.Function, args []Value) Value { return in.tb.BV(64, 4242) })
	reg("time.Since", func(in *Interp, fr *frame, fn *ssa.Function, args []Value) Value {
		now := in.now()
		sub := in.prog.LookupMethod(in.namedType("time", "Time"), nil, "Sub")
		return in.call(fr, sub, []Value{now, args[0]})
	})
	// (time.Time).Sub for instants without monotonic reading (all instants in this model): the saturating
	// difference stated without the division that the library's own overflow test performs.
	reg("(time.Time).Sub", func(in *Interp, fr *frame, fn *ssa.Function, args []Value) Value {
		tb := in.tb
		t, u := args[0].(Struct), args[1].(Struct)
		tw, uw := t[0].(*T), u[0].(*T)
		hasMono := func(w *T) bool { return upperBound(w) >= 1<<63 }
		if hasMono(tw) || hasMono(uw) {
			in.unsupported("time.Time.Sub on an instant with a monotonic reading")
		}
		mask := tb.BV(64, 1<<30-1)
		ds := tb.Sub(t[1].(*T), u[1].(*T))
		dn := tb.Sub(tb.BAnd(tw, mask), tb.BAnd(uw, mask))
		k := func(v int64) *T { return tb.BV(64, uint64(v)) }
		const Q, R = 9223372036, 854775807
		fitsHi := tb.Or(tb.SLt(ds, k(Q)), tb.Or(tb.And(tb.Eq(ds, k(Q)), tb.SLe(dn, k(R))), tb.And(tb.Eq(ds, k(Q+1)), tb.SLe(dn, k(R-1000000000)))))
		fitsLo := tb.Or(tb.SLt(k(-Q), ds), tb.Or(tb.And(tb.Eq(ds, k(-Q)), tb.SLe(k(-(R+1)), dn)), tb.And(tb.Eq(ds, k(-Q-1)), tb.SLe(k(1000000000-(R+1)), dn))))
		d := tb.Add(tb.Mul(ds, k(1000000000)), dn)
		return tb.Ite(tb.And(fitsHi, fitsLo), d, tb.Ite(tb.SLt(ds, k(0)), tb.BV(64, 1<<63), tb.BV(64, 1<<63-1)))
	})
	for _, m := range []string{"Seconds", "Minutes", "Hours"} {
		name := "(time.Duration)." + m
		div := map[string]float64{"Seconds": 1e9, "Minutes": 60e9, "Hours": 3600e9}[m]
		reg(name, func(in *Interp, fr *frame, fn *ssa.Function, args []Value) Value {
			d := args[0].(*T)
			if d.IsConst() {
				return F64(float64(int64(d.k)) / div)
			}
			// floats are concrete in this engine: a symbolic duration as float may be passed on (metrics) but not used
			return Poison{"float value of a symbolic duration"}
		})
	}
	// assembly block functions: run the portable Go version the package also carries
	reg("crypto/md5.block", func(in *Interp, fr *frame, fn *ssa.Function, args []Value) Value {
		g := in.prog.ImportedPackage("crypto/md5").Func("blockGeneric")
		return in.call(fr, g, args)
	})
	// math: assembly-backed float helpers on concrete values
	for name, f := range map[string]func(float64) float64{
		"math.archCeil": math.Ceil, "math.archFloor": math.Floor, "math.archTrunc": math.Trunc, "math.archSqrt": math.Sqrt,
		"math.Ceil": math.Ceil, "math.Floor": math.Floor, "math.Trunc": math.Trunc, "math.Sqrt": math.Sqrt,
	} {
		f := f
		reg(name, func(in *Interp, fr *frame, fn *ssa.Function, args []Value) Value {
			x, ok := args[0].(F64)
			if !ok {
				in.unsupported("math function on a symbolic float")
			}
			return F64(f(float64(x)))
		})
	}
	// timers: the channel of a timer may deliver in any select that waits on it (time-outs are explored as choices)
	reg("time.NewTimer", func(in *Interp, fr *frame, fn *ssa.Function, args []Value) Value {
		tt := in.namedType("time", "Timer")
		st := in.zero(tt).(Struct)
		st[0] = &Chan{timer: true}
		var v Value = st
		return &v
	})
	reg("(*time.Timer).Stop", func(in *Interp, fr *frame, fn *ssa.Function, args []Value) Value { return in.tb.fls })
	reg("(*time.Timer).Reset", func(in *Interp, fr *frame, fn *ssa.Function, args []Value) Value { return in.tb.fls })
	reg("time.After", func(in *Interp, fr *frame, fn *ssa.Function, args []Value) Value { return &Chan{timer: true} })
	reg("time.runtimeNano", func(in *Interp, fr *frame, fn *ssa.Function, args []Value) Value {
		return in.tb.BV(64, 0)
	})
}

func (in *Interp) crc(prev *T, bs []*T) *T {
	if len(bs) == 0 {
		return prev
	}
	allConst := prev.IsConst()
	for _, b := range bs {
		if !b.IsConst() {
			allConst = false
		}
	}
	_ = allConst
	// chunk long inputs so that UF arities stay small: CRC(prev, b0..b7) chained
	cur := prev
	for i := 0; i < len(bs); i += 8 {
		j := i + 8
		if j > len(bs) {
			j = len(bs)
		}
		args := append([]*T{cur}, bs[i:j]...)
		cur = in.tb.UF(fmt.Sprintf("CRC%d", j-i), 32, args...)
	}
	return cur
}

const unixToInternal = (1969*365 + 1969/4 - 1969/100 + 1969/400) * 86400

func (in *Interp) now() Value {
	tb := in.tb
	if in.initMode > 0 {
		// package initialisers run "at process start": a fixed early instant
		return Struct{tb.BV(64, 0), tb.BV(64, uint64(unixToInternal+(1<<30))), (*Value)(nil)}
	}
	// structurally bounded: seconds fit 32 bits, nanoseconds are a remainder modulo 10^9
	sec32 := in.freshVar("now.sec", 32)
	if in.cfg.Params["onesecond"] == 1 {
		// every instant of the run lies within one fixed second: nanosecond arithmetic stays linear
		sec32 = tb.BV(32, 1<<31)
	}
	nsv := in.freshVar("now.nsec", 32)
	in.record("now", "time", []*T{sec32, nsv}, 0)
	sec := tb.ZExt(sec32, 64)
	nsec := tb.URem(nsv, tb.BV(32, 1000000000))
	// plausible range: 2004..2106, so that UnixNano does not overflow
	in.assume(tb.ULe(tb.BV(64, 1<<30), sec))
	// monotone clock, stated lexicographically on (sec, nsec) so that no multiplication is involved
	if in.lastSec != nil {
		lt := tb.ULt(in.lastSec, sec)
		eq := tb.Eq(in.lastSec, sec)
		var sub *T
		if in.cfg.Params["strictclock"] == 1 {
			sub = tb.ULt(in.lastNsec, nsec)
		} else {
			sub = tb.ULe(in.lastNsec, nsec)
		}
		in.assume(tb.Or(lt, tb.And(eq, sub)))
	}
	in.lastSec, in.lastNsec = sec, nsec
	// wall: no monotonic reading -> wall = nsec ; ext = seconds since year 1
	ext := tb.Add(sec, tb.BV(64, uint64(unixToInternal)))
	locG := in.prog.ImportedPackage("time").Var("Local")
	var loc Value = (*Value)(nil)
	if locG != nil {
		loc = *in.global(locG)
	}
	return Struct{tb.ZExt(nsec, 64), ext, loc}
}

// formatInt renders a 64-bit term in base 10. The digit count is decided by forking; digits are
// computed in the narrowest width that holds the value (zero-extended operands stay narrow).
func (in *Interp) formatInt(t *T, signed bool) Value {
	tb := in.tb
	if t.IsConst() {
		if signed {
			return in.mkStr(strconv.FormatInt(int64(t.k), 10))
		}
		return in.mkStr(strconv.FormatUint(t.k, 10))
	}
	neg := false
	if signed && !(t.op == OZExt) {
		if in.branch(tb.SLt(t, tb.BV(64, 0))) {
			neg = true
			t = tb.Neg(t)
		}
	}
	// narrow
	x := t
	if t.op == OZExt {
		x = t.args[0]
		if x.w < 8 {
			x = tb.ZExt(x, 8)
		}
	}
	maxDigits := map[int]int{8: 3, 16: 5, 32: 10, 64: 20}[x.w]
	// work in a width with headroom for the powers of ten
	w := x.w
	if w < 16 {
		w = 16
		x = tb.ZExt(x, 16)
	}
	nd := maxDigits
	pow := uint64(10)
	for d := 1; d < maxDigits; d++ {
		if in.branch(tb.ULt(x, tb.BV(w, pow))) {
			nd = d
			break
		}
		pow *= 10
	}
	digits := make([]*T, nd)
	p := uint64(1)
	for i := nd - 1; i >= 0; i-- {
		q := x
		if p > 1 {
			q = tb.UDiv(x, tb.BV(w, p))
		}
		dg := tb.URem(q, tb.BV(w, 10))
		digits[i] = tb.Add(tb.Extract(dg, 7, 0), tb.bytes['0'])
		p *= 10
	}
	if neg {
		digits = append([]*T{tb.bytes['-']}, digits...)
	}
	return Str{b: digits}
}

func (in *Interp) ioCopy(fr *frame, dst, src Value, limit int) Value {
	d, s := dst.(Iface), src.(Iface)
	if d.t == nil || s.t == nil {
		in.unsupported("io.Copy with nil operand")
	}
	rd := in.prog.LookupMethod(s.t, nil, "Read")
	wr := in.prog.LookupMethod(d.t, nil, "Write")
	if rd == nil || wr == nil {
		in.unsupported("io.Copy operands lack Read/Write")
	}
	total := 0
	for iter := 0; iter < 100000; iter++ {
		sz := 4096
		if limit >= 0 && limit-total < sz {
			sz = limit - total
		}
		if sz == 0 {
			break
		}
		buf := make([]Value, sz)
		for i := range buf {
			buf[i] = in.tb.bytes[0]
		}
		r := in.call(fr, rd, []Value{s.v, buf}).(Tuple)
		n := in.concreteInt(r[0], "Read count")
		if n > 0 {
			w := in.call(fr, wr, []Value{d.v, buf[:n]}).(Tuple)
			if e := w[1].(Iface); e.t != nil {
				return Tuple{in.int64v(total), e}
			}
			total += n
		}
		if e := r[1].(Iface); e.t != nil {
			if in.branch(in.valueEq(e, in.ioErr("EOF"))) {
				if limit >= 0 && total < limit {
					return Tuple{in.int64v(total), e}
				}
				return Tuple{in.int64v(total), Iface{}}
			}
			return Tuple{in.int64v(total), e}
		}
	}
	return Tuple{in.int64v(total), Iface{}}
}
