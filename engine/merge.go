package main

// Region merging: a symbolic `if` whose arms are side-effect free and rejoin at the immediate
// post-dominator is evaluated speculatively on both arms and merged with ite terms, instead of
// forking the path (the main lever against && / || blow-up).

import (
	"go/token"
	"go/types"
	"sync"

	"golang.org/x/tools/go/ssa"
)

type specAbort struct{ why string }

type cfgInfo struct {
	ipdom map[*ssa.BasicBlock]*ssa.BasicBlock // nil => virtual exit
}

var cfgCache sync.Map

func getCFG(fn *ssa.Function) *cfgInfo {
	if v, ok := cfgCache.Load(fn); ok {
		return v.(*cfgInfo)
	}
	n := len(fn.Blocks)
	// post-dominator sets via iterative dataflow on bitsets (functions are small)
	exit := n
	words := (n + 1 + 63) / 64
	full := make([]uint64, words)
	for i := 0; i <= n; i++ {
		full[i/64] |= 1 << uint(i%64)
	}
	pd := make([][]uint64, n+1)
	for i := 0; i <= n; i++ {
		pd[i] = append([]uint64(nil), full...)
	}
	pd[exit] = make([]uint64, words)
	pd[exit][exit/64] |= 1 << uint(exit%64)
	succs := func(b *ssa.BasicBlock) []int {
		if len(b.Succs) == 0 {
			return []int{exit}
		}
		r := make([]int, len(b.Succs))
		for i, s := range b.Succs {
			r[i] = s.Index
		}
		return r
	}
	changed := true
	for changed {
		changed = false
		for i := n - 1; i >= 0; i-- {
			b := fn.Blocks[i]
			nw := append([]uint64(nil), full...)
			for _, s := range succs(b) {
				for w := range nw {
					nw[w] &= pd[s][w]
				}
			}
			nw[i/64] |= 1 << uint(i%64)
			for w := range nw {
				if nw[w] != pd[i][w] {
					changed = true
				}
			}
			pd[i] = nw
		}
	}
	has := func(set []uint64, i int) bool { return set[i/64]&(1<<uint(i%64)) != 0 }
	count := func(set []uint64) int {
		c := 0
		for i := 0; i <= n; i++ {
			if has(set, i) {
				c++
			}
		}
		return c
	}
	ci := &cfgInfo{ipdom: map[*ssa.BasicBlock]*ssa.BasicBlock{}}
	for i := 0; i < n; i++ {
		// immediate post-dominator: the strict post-dominator with the largest pdom set
		best, bestc := -1, -1
		for j := 0; j <= n; j++ {
			if j != i && has(pd[i], j) {
				c := count(pd[j])
				if c > bestc {
					best, bestc = j, c
				}
			}
		}
		if best >= 0 && best < n {
			ci.ipdom[fn.Blocks[i]] = fn.Blocks[best]
		}
	}
	cfgCache.Store(fn, ci)
	return ci
}

var pureCache sync.Map

func pureFn(fn *ssa.Function, depth int) bool {
	if v, ok := pureCache.Load(fn); ok {
		return v.(bool)
	}
	if depth > 3 {
		return false
	}
	if fn.Pkg != nil {
		fn.Pkg.Build()
	}
	if fn.Blocks == nil {
		return false
	}
	res := true
	for _, b := range fn.Blocks {
		for _, ins := range b.Instrs {
			if !pureInstr(ins, depth) {
				res = false
			}
		}
	}
	if fn.Recover != nil {
		res = false
	}
	pureCache.Store(fn, res)
	return res
}

var pureIntrinsics = map[string]bool{
	rtPkg + ".And": true, rtPkg + ".Or": true, rtPkg + ".Implies": true, rtPkg + ".BytesEq": true, rtPkg + ".Ite64": true,
	"bytes.Equal": true,
}

func pureInstr(ins ssa.Instruction, depth int) bool {
	switch ins := ins.(type) {
	case *ssa.BinOp, *ssa.ChangeType, *ssa.Convert, *ssa.Field, *ssa.Extract, *ssa.Phi, *ssa.If, *ssa.Jump,
		*ssa.FieldAddr, *ssa.IndexAddr, *ssa.Index, *ssa.DebugRef, *ssa.MakeInterface, *ssa.ChangeInterface, *ssa.Slice,
		*ssa.Return, *ssa.TypeAssert:
		return true
	case *ssa.UnOp:
		return ins.Op != token.ARROW
	case *ssa.Lookup:
		_, isMap := ins.X.Type().Underlying().(*types.Map)
		return !isMap
	case *ssa.Call:
		if b, ok := ins.Call.Value.(*ssa.Builtin); ok {
			switch b.Name() {
			case "len", "cap", "min", "max":
				return true
			}
			return false
		}
		if f := ins.Call.StaticCallee(); f != nil {
			if pureIntrinsics[fullName(f)] {
				return true
			}
			if _, isIntr := intrinsics[fullName(f)]; isIntr {
				return false
			}
			if f.Blocks == nil && f.Pkg != nil {
				return false
			}
			return pureFn(f, depth+1)
		}
		return false
	}
	return false
}

func (in *Interp) tryMerge(fr *frame, instr *ssa.If, c *T) (res cont, ok bool) {
	if in.cfg.NoMerge {
		return kNext, false
	}
	b := fr.block
	join := getCFG(fr.fn).ipdom[b]
	if join == nil {
		return kNext, false
	}
	// collect region
	region := map[*ssa.BasicBlock]bool{}
	var order []*ssa.BasicBlock
	state := map[*ssa.BasicBlock]int{}
	okRegion := true
	var dfs func(x *ssa.BasicBlock)
	dfs = func(x *ssa.BasicBlock) {
		if !okRegion || x == join {
			return
		}
		if x == b || state[x] == 1 {
			okRegion = false // cycle
			return
		}
		if state[x] == 2 {
			return
		}
		state[x] = 1
		region[x] = true
		if len(region) > 16 {
			okRegion = false
			return
		}
		for _, s := range x.Succs {
			dfs(s)
		}
		state[x] = 2
		order = append(order, x) // post-order
	}
	for _, s := range b.Succs {
		dfs(s)
	}
	if !okRegion {
		return kNext, false
	}
	for x := range region {
		for _, p := range x.Preds {
			if p != b && !region[p] {
				return kNext, false
			}
		}
		if len(x.Succs) == 0 {
			return kNext, false
		}
		for _, ins := range x.Instrs {
			if _, isRet := ins.(*ssa.Return); isRet {
				return kNext, false
			}
			if !pureInstr(ins, 0) {
				return kNext, false
			}
		}
	}
	for _, p := range join.Preds {
		if p != b && !region[p] {
			return kNext, false
		}
	}
	// speculative evaluation
	type edge struct{ from, to *ssa.BasicBlock }
	eg := map[edge]*T{}
	tb := in.tb
	eg[edge{b, b.Succs[0]}] = c
	if b.Succs[1] == b.Succs[0] {
		eg[edge{b, b.Succs[0]}] = tb.tru
	} else {
		eg[edge{b, b.Succs[1]}] = tb.Not(c)
	}
	savedSpec := in.speculating
	in.speculating = true
	savedBlock, savedPrev := fr.block, fr.prev
	defer func() {
		in.speculating = savedSpec
		if r := recover(); r != nil {
			if _, isAbort := r.(specAbort); isAbort {
				fr.block, fr.prev = savedBlock, savedPrev
				res, ok = kNext, false
				return
			}
			panic(r)
		}
	}()
	mergePhi := func(x *ssa.BasicBlock, phi *ssa.Phi) Value {
		var acc Value
		first := true
		for i, p := range x.Preds {
			g, has := eg[edge{p, x}]
			if !has || (g.IsConst() && g.k == 0) {
				continue
			}
			v := fr.get(phi.Edges[i])
			if first {
				acc = v
				first = false
				continue
			}
			acc = in.iteValue(g, v, acc)
		}
		if first {
			panic(specAbort{"phi without live edge"})
		}
		return acc
	}
	for i := len(order) - 1; i >= 0; i-- { // reverse post-order = topological
		x := order[i]
		g := tb.fls
		for _, p := range x.Preds {
			if e, has := eg[edge{p, x}]; has {
				g = tb.Or(g, e)
			}
		}
		if g.IsConst() && g.k == 0 {
			continue // dead block on this path
		}
		fr.block = x
		var phiVals []Value
		nphi := 0
		for _, ins := range x.Instrs {
			phi, isPhi := ins.(*ssa.Phi)
			if !isPhi {
				break
			}
			phiVals = append(phiVals, mergePhi(x, phi))
			nphi++
		}
		for k := 0; k < nphi; k++ {
			fr.set(x.Instrs[k].(*ssa.Phi), phiVals[k])
		}
		for _, ins := range x.Instrs[nphi:] {
			switch ins := ins.(type) {
			case *ssa.If:
				cv, isT := fr.get(ins.Cond).(*T)
				if !isT {
					panic(specAbort{"non-term condition"})
				}
				if x.Succs[0] == x.Succs[1] {
					eg[edge{x, x.Succs[0]}] = g
				} else {
					eg[edge{x, x.Succs[0]}] = tb.And(g, cv)
					eg[edge{x, x.Succs[1]}] = tb.And(g, tb.Not(cv))
				}
			case *ssa.Jump:
				eg[edge{x, x.Succs[0]}] = g
			default:
				in.steps++
				fr.visit(ins)
			}
		}
	}
	// join phis
	var vals []Value
	nphi := 0
	for _, ins := range join.Instrs {
		phi, isPhi := ins.(*ssa.Phi)
		if !isPhi {
			break
		}
		vals = append(vals, mergePhi(join, phi))
		nphi++
	}
	for k := 0; k < nphi; k++ {
		fr.set(join.Instrs[k].(*ssa.Phi), vals[k])
	}
	in.merges++
	fr.skipPhis = true
	fr.prev, fr.block = b, join
	return kJump, true
}

// iteValue merges two values under a guard; aborts the speculation if they cannot be merged.
func (in *Interp) iteValue(g *T, a, b Value) Value {
	switch av := a.(type) {
	case *T:
		if bv, ok := b.(*T); ok && av.w == bv.w {
			return in.tb.Ite(g, av, bv)
		}
	case Str:
		if bv, ok := b.(Str); ok && !av.opaque && !bv.opaque && len(av.b) == len(bv.b) {
			r := make([]*T, len(av.b))
			for i := range r {
				r[i] = in.tb.Ite(g, av.b[i], bv.b[i])
			}
			return Str{b: r}
		}
	case *Value:
		if bv, ok := b.(*Value); ok && av == bv {
			return av
		}
	case Struct:
		if bv, ok := b.(Struct); ok && len(av) == len(bv) {
			r := make(Struct, len(av))
			for i := range r {
				r[i] = in.iteValue(g, av[i], bv[i])
			}
			return r
		}
	case Tuple:
		if bv, ok := b.(Tuple); ok && len(av) == len(bv) {
			r := make(Tuple, len(av))
			for i := range r {
				r[i] = in.iteValue(g, av[i], bv[i])
			}
			return r
		}
	case Iface:
		if bv, ok := b.(Iface); ok {
			if av.t == nil && bv.t == nil {
				return av
			}
			if av.t != nil && bv.t != nil && types.Identical(av.t, bv.t) {
				return Iface{t: av.t, v: in.iteValue(g, av.v, bv.v)}
			}
		}
	case F64:
		if bv, ok := b.(F64); ok && av == bv {
			return av
		}
	case *Map:
		if bv, ok := b.(*Map); ok && av == bv {
			return av
		}
	case []Value:
		if bv, ok := b.([]Value); ok && len(av) == len(bv) && (len(av) == 0 && (av == nil) == (bv == nil) || len(av) > 0 && &av[0] == &bv[0]) {
			return av
		}
	case *ssa.Function:
		if bv, ok := b.(*ssa.Function); ok && av == bv {
			return av
		}
	}
	panic(specAbort{"unmergeable values"})
}
