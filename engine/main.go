package main

// gse: bounded symbolic execution of real Go code (go/ssa -> SMT-LIB2 -> z3).

import (
	"sync/atomic"
	"encoding/json"
	"flag"
	"fmt"
	"os"
	"path/filepath"
	"runtime/debug"
	"sort"
	"strconv"
	"strings"
	"sync"
	"time"

	"golang.org/x/tools/go/packages"
	"golang.org/x/tools/go/ssa"
	"golang.org/x/tools/go/ssa/ssautil"
)

type Config struct {
	Repo          string
	Pkg           string
	Harnesses     []string
	HarnessDir    string
	RtDir         string
	Tags          string
	Params        map[string]int
	Unwind        int
	Workers       int
	TimeoutMs     int
	MaxSteps      int
	MaxPaths      int
	MaxViolations int
	MaxConcretize int
	PermuteMaps   int
	SortMaps      bool
	ChanAnyOrder  bool
	CleanSamples  int
	AllowInitFail map[string]bool
	Out           string
	Seed          int64
	SmtLog        string
	ExtraOverlay  map[string]string
	NoMerge       bool
	NoDivElim     bool
	OnlyPrefix    string
}

type HarnessResult struct {
	Harness      string            `json:"harness"`
	Paths        int               `json:"paths"`
	PathsDone    int               `json:"paths_done"`
	PathsAssume  int               `json:"paths_pruned_by_assume"`
	Branches     int               `json:"symbolic_branch_decisions"`
	VCs          int               `json:"vcs"`
	VCsUnsat     int               `json:"vcs_unsat"`
	VCsConst     int               `json:"vcs_folded_constant"`
	Queries      int               `json:"solver_queries"`
	SolverTimeS  float64           `json:"solver_time_s"`
	WallS        float64           `json:"wall_s"`
	Violations   []*Violation      `json:"violations"`
	Inconclusive []string          `json:"inconclusive"`
	Covers       []string          `json:"covers"`
	Functions    []string          `json:"functions_encoded"`
	Samples      []string          `json:"samples"`
	CleanReplays [][]ReplayRec     `json:"clean_replays"`
	MaxDepth     int               `json:"max_decisions_on_a_path"`
	Steps        int64             `json:"ssa_instructions_executed"`
	Params       map[string]int    `json:"params"`
	Unwind       int               `json:"unwind"`
	SolverErrors []string          `json:"solver_errors"`
	Portfolio    map[string]int    `json:"vcs_decided_by_fallback_solver"`
}

type Output struct {
	Pkg       string           `json:"pkg"`
	Tags      string           `json:"tags"`
	LoadS     float64          `json:"load_s"`
	Results   []*HarnessResult `json:"results"`
	Error     string           `json:"error,omitempty"`
	Solver    string           `json:"solver"`
	TimeoutMs int              `json:"solver_timeout_ms"`
}

func main() {
	cfg := &Config{Params: map[string]int{}, AllowInitFail: map[string]bool{}, ExtraOverlay: map[string]string{}}
	var harn, params, allowInit, overlay string
	flag.StringVar(&cfg.Repo, "repo", "/repo", "repository root")
	flag.StringVar(&cfg.Pkg, "pkg", "", "import path of the package hosting the harness")
	flag.StringVar(&harn, "harness", "", "comma-separated harness function names")
	flag.StringVar(&cfg.HarnessDir, "hdir", "/verif/harness", "harness tree")
	flag.StringVar(&cfg.RtDir, "rtdir", "/verif/rt", "rt directory")
	flag.StringVar(&cfg.Tags, "tags", "", "build tags")
	flag.StringVar(&params, "p", "", "params k=v,k=v")
	flag.IntVar(&cfg.Unwind, "unwind", 16, "unwinding bound (symbolic decisions per branch instruction per frame)")
	flag.IntVar(&cfg.Workers, "workers", 16, "workers")
	flag.IntVar(&cfg.TimeoutMs, "timeout", 20000, "solver timeout per query (ms)")
	flag.IntVar(&cfg.MaxSteps, "maxsteps", 20000000, "SSA instruction budget per path")
	flag.IntVar(&cfg.MaxPaths, "maxpaths", 2000000, "path budget per harness")
	flag.IntVar(&cfg.MaxViolations, "maxviol", 20, "stop after this many violations")
	flag.IntVar(&cfg.MaxConcretize, "maxconc", 64, "max elements for concretising a symbolic index")
	flag.IntVar(&cfg.PermuteMaps, "permute", 0, "permute iteration order of maps up to this size")
	flag.BoolVar(&cfg.ChanAnyOrder, "chanany", false, "receive any queued channel element")
	flag.IntVar(&cfg.CleanSamples, "cleansamples", 0, "emit replay data for this many passing paths per harness")
	flag.StringVar(&allowInit, "allowinitfail", "", "comma-separated repo packages whose init may be incomplete")
	flag.StringVar(&cfg.Out, "out", "", "result JSON path")
	flag.Int64Var(&cfg.Seed, "seed", 0, "seed (exploration order only)")
	flag.StringVar(&cfg.SmtLog, "smtlog", "", "write the SMT transcript of worker 0 here")
	flag.BoolVar(&cfg.NoMerge, "nomerge", false, "disable region merging (fork on every symbolic branch)")
	flag.BoolVar(&cfg.NoDivElim, "nodivelim", false, "keep wide divisions by constants as dividers")
	flag.StringVar(&cfg.OnlyPrefix, "prefix", "", "debug: run only this decision prefix (comma separated)")
	flag.StringVar(&overlay, "overlay", "", "extra overlay real=virtual,... (mutants)")
	flag.Parse()
	cfg.Harnesses = strings.Split(harn, ",")
	for _, kv := range strings.Split(params, ",") {
		if kv == "" {
			continue
		}
		p := strings.SplitN(kv, "=", 2)
		v, _ := strconv.Atoi(p[1])
		cfg.Params[p[0]] = v
	}
	for _, p := range strings.Split(allowInit, ",") {
		if p != "" {
			cfg.AllowInitFail[p] = true
		}
	}
	for _, kv := range strings.Split(overlay, ",") {
		if kv == "" {
			continue
		}
		p := strings.SplitN(kv, "=", 2)
		cfg.ExtraOverlay[p[1]] = p[0]
	}
	out := &Output{Pkg: cfg.Pkg, Tags: cfg.Tags, Solver: "z3 5.1.0 (z3-new -in, incremental); fallback for unknown: z3 4.8.12, cvc5 1.0 (one-shot)", TimeoutMs: cfg.TimeoutMs}
	t0 := time.Now()
	prog, pkg, err := load(cfg)
	out.LoadS = time.Since(t0).Seconds()
	if err != nil {
		out.Error = "harness-build: " + err.Error()
		writeOut(cfg, out)
		fmt.Fprintln(os.Stderr, "ERROR harness-build:", err)
		os.Exit(2)
	}
	sh := &Shared{prog: prog, cfg: cfg, funcs: map[string]bool{}, redirect: map[string]*ssa.Function{}, observe: map[string]*ssa.Function{}}
	findRedirects(sh, pkg)
	for _, h := range cfg.Harnesses {
		fn := pkg.Func(h)
		if fn == nil {
			out.Error = "harness-build: no function " + h + " in " + cfg.Pkg
			writeOut(cfg, out)
			fmt.Fprintln(os.Stderr, "ERROR", out.Error)
			os.Exit(2)
		}
		r := runHarness(sh, fn)
		out.Results = append(out.Results, r)
		fmt.Fprintf(os.Stderr, "%s: paths=%d done=%d vcs=%d unsat=%d viol=%d inconcl=%d queries=%d solver=%.1fs wall=%.1fs\n",
			h, r.Paths, r.PathsDone, r.VCs, r.VCsUnsat, len(r.Violations), len(r.Inconclusive), r.Queries, r.SolverTimeS, r.WallS)
		for _, m := range r.Inconclusive {
			fmt.Fprintln(os.Stderr, "   INCONCLUSIVE:", m)
		}
		for _, v := range r.Violations {
			fmt.Fprintf(os.Stderr, "   VIOLATION-CANDIDATE %s: %s\n", v.Tag, v.Msg)
		}
	}
	writeOut(cfg, out)
}

func writeOut(cfg *Config, out *Output) {
	b, _ := json.MarshalIndent(out, "", " ")
	if cfg.Out == "" {
		os.Stdout.Write(b)
		return
	}
	os.WriteFile(cfg.Out, b, 0644)
}

func (v *Violation) MarshalJSON() ([]byte, error) {
	return json.Marshal(map[string]interface{}{
		"harness": v.Harness, "tag": v.Tag, "msg": v.Msg, "replay": v.Replay, "model": v.Model, "pc": v.PC, "trace": v.Trace,
	})
}

func load(cfg *Config) (*ssa.Program, *ssa.Package, error) {
	overlay := map[string][]byte{}
	addDir := func(srcDir, dstDir string) error {
		ents, err := os.ReadDir(srcDir)
		if err != nil {
			return err
		}
		for _, e := range ents {
			if e.IsDir() || !strings.HasSuffix(e.Name(), ".go") || strings.HasSuffix(e.Name(), "_test.go") {
				continue
			}
			b, err := os.ReadFile(filepath.Join(srcDir, e.Name()))
			if err != nil {
				return err
			}
			overlay[filepath.Join(dstDir, e.Name())] = b
		}
		return nil
	}
	const mod = "github.com/chrislusf/seaweedfs/"
	if err := addDir(cfg.RtDir, filepath.Join(cfg.Repo, "weed/zzverifrt")); err != nil {
		return nil, nil, err
	}
	// every harness directory is overlaid (harnesses of imported packages may provide helpers)
	filepath.Walk(cfg.HarnessDir, func(p string, info os.FileInfo, err error) error {
		if err == nil && info.IsDir() {
			rel, _ := filepath.Rel(cfg.HarnessDir, p)
			if rel != "." {
				addDir(p, filepath.Join(cfg.Repo, rel))
			}
		}
		return nil
	})
	for virt, realp := range cfg.ExtraOverlay {
		b, err := os.ReadFile(realp)
		if err != nil {
			return nil, nil, err
		}
		overlay[virt] = b
	}
	pc := &packages.Config{
		Mode:    packages.LoadAllSyntax,
		Dir:     cfg.Repo,
		Overlay: overlay,
		Env:     append(os.Environ(), "GOFLAGS=-mod=mod", "GOPROXY=off", "GOSUMDB=off", "GOTOOLCHAIN=local"),
	}
	if cfg.Tags != "" {
		pc.BuildFlags = []string{"-tags=" + cfg.Tags}
	}
	initial, err := packages.Load(pc, cfg.Pkg)
	if err != nil {
		return nil, nil, err
	}
	var errs []string
	packages.Visit(initial, nil, func(p *packages.Package) {
		if strings.HasPrefix(p.PkgPath, strings.TrimSuffix(mod, "/")) {
			for _, e := range p.Errors {
				errs = append(errs, e.Error())
			}
		}
	})
	if len(errs) > 0 {
		if len(errs) > 10 {
			errs = errs[:10]
		}
		return nil, nil, fmt.Errorf("%s", strings.Join(errs, "\n"))
	}
	prog, pkgs := ssautil.AllPackages(initial, ssa.InstantiateGenerics)
	if len(pkgs) == 0 || pkgs[0] == nil {
		return nil, nil, fmt.Errorf("no SSA package for %s", cfg.Pkg)
	}
	pkgs[0].Build()
	return prog, pkgs[0], nil
}

// findRedirects scans harness sources for  //verif:redirect <full function name> <harness func>
// and  //verif:use <import path>  (also take the redirects declared by that package's harness files).
func findRedirects(sh *Shared, pkg *ssa.Package) {
	if sh.redirSeen == nil {
		sh.redirSeen = map[string]bool{}
	}
	if sh.redirSeen[pkg.Pkg.Path()] {
		return
	}
	sh.redirSeen[pkg.Pkg.Path()] = true
	rel := strings.TrimPrefix(pkg.Pkg.Path(), "github.com/chrislusf/seaweedfs/")
	dir := filepath.Join(sh.cfg.HarnessDir, rel)
	ents, _ := os.ReadDir(dir)
	for _, e := range ents {
		b, err := os.ReadFile(filepath.Join(dir, e.Name()))
		if err != nil {
			continue
		}
		for _, line := range strings.Split(string(b), "\n") {
			line = strings.TrimSpace(line)
			if strings.HasPrefix(line, "//verif:use ") {
				if f := strings.Fields(line); len(f) == 2 {
					other := pkg.Prog.ImportedPackage(f[1])
					if other == nil {
						fmt.Fprintln(os.Stderr, "verif:use package not loaded:", f[1])
						os.Exit(2)
					}
					other.Build()
					findRedirects(sh, other)
				}
				continue
			}
			isObserve := strings.HasPrefix(line, "//verif:observe ")
			if !strings.HasPrefix(line, "//verif:redirect ") && !isObserve {
				continue
			}
			f := strings.Fields(line)
			if len(f) != 3 {
				continue
			}
			target := pkg.Func(f[2])
			if target == nil {
				fmt.Fprintln(os.Stderr, "redirect target not found:", f[2])
				os.Exit(2)
			}
			if isObserve {
				// the harness function is called with the same arguments before the real function runs
				sh.observe[f[1]] = target
			} else {
				sh.redirect[f[1]] = target
			}
		}
	}
}

// ---------------------------------------------------------------- scheduling

type sched struct {
	mu      sync.Mutex
	cond    *sync.Cond
	queue   [][]int
	active  int
	stopped bool
	paths   int
	noFork  bool
}

func (s *sched) push(p []int) {
	if s.noFork && s.paths > 0 {
		return
	}
	s.mu.Lock()
	s.queue = append(s.queue, p)
	s.paths++
	s.mu.Unlock()
	s.cond.Signal()
}

func (s *sched) pop() ([]int, bool) {
	s.mu.Lock()
	defer s.mu.Unlock()
	for {
		if s.stopped {
			return nil, false
		}
		if n := len(s.queue); n > 0 {
			p := s.queue[n-1]
			s.queue = s.queue[:n-1]
			s.active++
			return p, true
		}
		if s.active == 0 {
			s.cond.Broadcast()
			return nil, false
		}
		s.cond.Wait()
	}
}

func (s *sched) done() {
	s.mu.Lock()
	s.active--
	if s.active == 0 && len(s.queue) == 0 {
		s.cond.Broadcast()
	}
	s.mu.Unlock()
}

func (s *sched) stop() {
	s.mu.Lock()
	s.stopped = true
	s.mu.Unlock()
	s.cond.Broadcast()
}

func runHarness(sh *Shared, fn *ssa.Function) *HarnessResult {
	cfg := sh.cfg
	res := &HarnessResult{Harness: fn.Name(), Params: cfg.Params, Unwind: cfg.Unwind, Portfolio: map[string]int{}}
	t0 := time.Now()
	sc := &sched{}
	sc.cond = sync.NewCond(&sc.mu)
	if cfg.OnlyPrefix != "" {
		var p []int
		for _, x := range strings.Split(cfg.OnlyPrefix, ",") {
			n, _ := strconv.Atoi(x)
			p = append(p, n)
		}
		sc.push(p)
		sc.noFork = true
	} else {
		sc.push(nil)
	}
	var mu sync.Mutex
	covers := map[string]bool{}
	funcs := map[string]bool{}
	inconcl := map[string]int{}
	violTags := map[string]bool{}
	cleanWanted := int32(cfg.CleanSamples)
	var wg sync.WaitGroup
	for w := 0; w < cfg.Workers; w++ {
		wg.Add(1)
		go func(w int) {
			defer wg.Done()
			tb := NewTB()
			logp := ""
			if w == 0 {
				logp = cfg.SmtLog
			}
			sol, err := NewSolver(tb, cfg.TimeoutMs, logp)
			if err != nil {
				mu.Lock()
				inconcl["cannot start solver: "+err.Error()]++
				mu.Unlock()
				sc.stop()
				return
			}
			defer sol.Close()
			in := &Interp{sh: sh, prog: sh.prog, tb: tb, sol: sol, cfg: cfg, funcsSeen: map[*ssa.Function]bool{}, harness: fn.Name(), portfolio: map[string]int{}}
			in.forks = sc.push
			for {
				prefix, ok := sc.pop()
				if !ok {
					break
				}
				if tb.next > 3000000 {
					// keep memory bounded: fresh term table and solver
					sol.Close()
					tb = NewTB()
					sol, _ = NewSolver(tb, cfg.TimeoutMs, "")
					in.tb, in.sol = tb, sol
				}
				in.wantClean = &cleanWanted
				kind, msg, viol := in.runPath(fn, prefix)
				cleanReplay := in.cleanReplay
				in.cleanReplay = nil
				mu.Lock()
				if cleanReplay != nil {
					res.CleanReplays = append(res.CleanReplays, cleanReplay)
				}
				res.PathsDone++
				if len(in.trace) > res.MaxDepth {
					res.MaxDepth = len(in.trace)
				}
				res.Steps += int64(in.steps)
				for _, kv := range in.pathViol {
					if !violTags[kv.Tag] {
						violTags[kv.Tag] = true
						res.Violations = append(res.Violations, kv)
					}
				}
				switch kind {
				case "done":
				case "assume":
					res.PathsAssume++
				case "violation":
					key := viol.Tag
					if !violTags[key] || len(res.Violations) < 3 {
						res.Violations = append(res.Violations, viol)
					}
					violTags[key] = true
					if len(res.Violations) >= cfg.MaxViolations {
						sc.stopped = true
					}
				default:
					inconcl[kind+": "+msg]++
				}
				for c := range in.covers {
					covers[c] = true
				}
				if sc.paths > cfg.MaxPaths {
					inconcl[fmt.Sprintf("budget: more than %d paths", cfg.MaxPaths)]++
					sc.stopped = true
				}
				mu.Unlock()
				sc.done()
				if sc.stopped {
					sc.cond.Broadcast()
				}
			}
			mu.Lock()
			res.Branches += in.branches
			res.VCs += in.vcs
			res.VCsUnsat += in.vcsUnsat
			res.VCsConst += in.vcsConst
			res.Queries += sol.Queries
			res.SolverTimeS += sol.Time.Seconds()
			res.SolverErrors = append(res.SolverErrors, append(sol.AllErrors, sol.Errors...)...)
			for f := range in.funcsSeen {
				funcs[describeFn(sh, f)] = true
			}
			for who, n := range in.portfolio {
				res.Portfolio[who] += n
			}
			if len(res.Samples) < 8 {
				res.Samples = append(res.Samples, in.samples...)
			}
			mu.Unlock()
		}(w)
	}
	wg.Wait()
	res.Paths = sc.paths
	for c := range covers {
		res.Covers = append(res.Covers, c)
	}
	sort.Strings(res.Covers)
	for f := range funcs {
		if f != "" {
			res.Functions = append(res.Functions, f)
		}
	}
	sort.Strings(res.Functions)
	for m, n := range inconcl {
		res.Inconclusive = append(res.Inconclusive, fmt.Sprintf("%s (x%d)", m, n))
	}
	sort.Strings(res.Inconclusive)
	if len(res.SolverErrors) > 0 {
		res.Inconclusive = append(res.Inconclusive, "solver error lines: "+strings.Join(res.SolverErrors[:min(3, len(res.SolverErrors))], " | "))
	}
	if len(res.Samples) > 8 {
		res.Samples = res.Samples[:8]
	}
	res.WallS = time.Since(t0).Seconds()
	return res
}

func describeFn(sh *Shared, f *ssa.Function) string {
	name := f.String()
	if !strings.Contains(name, "chrislusf/seaweedfs") || strings.Contains(name, "zzverifrt") {
		return ""
	}
	pos := sh.prog.Fset.Position(f.Pos())
	if strings.Contains(pos.Filename, "zz_verif") {
		return ""
	}
	file := strings.TrimPrefix(pos.Filename, sh.cfg.Repo+"/")
	return fmt.Sprintf("%s (%s:%d)", strings.ReplaceAll(name, "github.com/chrislusf/seaweedfs/", ""), file, pos.Line)
}

// runPath executes the harness along one decision prefix.
func (in *Interp) runPath(fn *ssa.Function, prefix []int) (kind, msg string, viol *Violation) {
	in.prefix = append([]int(nil), prefix...)
	in.pos = 0
	in.trace = in.trace[:0]
	in.pc = in.pc[:0]
	in.globals = map[*ssa.Global]*Value{}
	in.initDone = map[*ssa.Package]int{}
	in.nondet = nil
	in.occ = map[string]int{}
	in.covers = map[string]bool{}
	in.steps = 0
	in.initMode = 0
	in.vars = nil
	in.fs = nil
	in.clockN = 0
	in.lastNow = nil
	in.lastSec, in.lastNsec = nil, nil
	in.tmpDirs = 0
	in.expectPanic = false
	in.ghost = map[string]Value{}
	in.initStored = map[*ssa.Global]bool{}
	in.speculating = false
	in.pathViol = nil
	in.divN = 0
	in.decided = map[*T]bool{}
	in.curModel, in.pendingModel, in.pendingFor = nil, nil, nil
	in.tb.vars = map[string]*T{}
	in.sol.BeginPath()
	in.sol.Push()
	defer func() {
		r := recover()
		defer func() {
			if !in.sol.dead {
				in.sol.PopTo(0)
			}
		}()
		if r == nil {
			// a passing path: keep a witness (before the solver scope is popped) when the scheduler wants one
			if in.wantClean != nil && len(in.pathViol) == 0 && len(in.covers) > 0 && atomic.LoadInt32(in.wantClean) > 0 {
				if atomic.AddInt32(in.wantClean, -1) >= 0 {
					if m, sr := in.modelWithRecover(); sr == "sat" {
						in.cleanReplay = in.mkReplay(m)
					}
				}
			}
			return
		}
		switch r := r.(type) {
		case pathStop:
			kind, msg = r.kind, r.msg
		case *Violation:
			kind, viol = "violation", r
		case goPanic:
			if in.expectPanic {
				kind = "done"
				return
			}
			// an uncaught panic of the code under test on a feasible path
			m, sr := in.modelWithRecover()
			if sr == "unknown" {
				if pr, _ := Portfolio(in.pc, in.cfg.TimeoutMs); pr == "unsat" {
					sr = "unsat"
				}
			}
			if sr == "unsat" {
				kind, msg = "assume", "panicking path is infeasible"
				return
			}
			if sr != "sat" {
				kind, msg = "inconclusive", "solver "+sr+" while building the model of a panicking path: "+r.msg
				return
			}
			v := &Violation{Harness: in.harness, Tag: "panic", Msg: r.msg, Trace: append([]int(nil), in.trace...), Model: m}
			v.Replay = in.mkReplay(m)
			for _, p := range in.pc {
				n := 200
				v.PC = append(v.PC, Pretty(p, &n))
			}
			if d := os.Getenv("GSE_DUMPPANIC"); d != "" {
				os.WriteFile(d, []byte(Script(in.pc)), 0644)
			}
			kind, viol = "violation", v
		default:
			kind, msg = "engine-error", fmt.Sprintf("%v in %s\n%s", r, in.whereAmI(), trimStack(debug.Stack()))
		}
	}()
	in.callSSA(nil, fn, nil, nil)
	return "done", "", nil
}

func (in *Interp) modelWithRecover() (m map[string]uint64, r string) {
	defer func() {
		if e := recover(); e != nil {
			r = "error"
		}
	}()
	return in.modelWith(nil)
}

func trimStack(b []byte) string {
	s := string(b)
	lines := strings.Split(s, "\n")
	var keep []string
	for _, l := range lines {
		if strings.Contains(l, "verifengine") || strings.Contains(l, "/engine/") {
			keep = append(keep, strings.TrimSpace(l))
		}
		if len(keep) > 24 {
			break
		}
	}
	return strings.Join(keep, "\n")
}
