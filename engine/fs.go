package main

// In-memory file system behind *os.File (contents: symbolic bytes, concrete length).

import (
	"go/types"
	"sort"
	"strings"

	"golang.org/x/tools/go/ssa"
)

type MemFile struct {
	name string
	data []*T
}

type FS struct {
	files map[string]*MemFile
}

type FileHandle struct {
	f      *MemFile
	pos    int
	closed bool
	rdonly bool
	append bool
}

func (in *Interp) getFS() *FS {
	if in.fs == nil {
		in.fs = &FS{files: map[string]*MemFile{}}
	}
	return in.fs
}

func (in *Interp) fileOf(v Value) *FileHandle {
	p, ok := v.(*Value)
	if !ok || p == nil {
		in.unsupported("nil or foreign *os.File")
	}
	h, ok := (*p).(*FileHandle)
	if !ok {
		in.unsupported("*os.File not created by the file model")
	}
	return h
}

func (in *Interp) ioErr(name string) Value {
	g := in.prog.ImportedPackage("io").Var(name)
	return copyVal(*in.global(g))
}

func (in *Interp) fsErr(kind string) Value {
	// os.ErrNotExist etc. live in io/fs -> internal/oserror
	p := in.prog.ImportedPackage("io/fs")
	if p != nil {
		if g := p.Var(kind); g != nil {
			return copyVal(*in.global(g))
		}
	}
	return in.mkError(in.mkStr("file error: "+kind), nil)
}

func (in *Interp) pathErr(op, path, kind string) Value {
	// *fs.PathError{Op, Path, Err}
	t := in.namedType("io/fs", "PathError")
	p := new(Value)
	*p = Struct{in.mkStr(op), in.mkStr(path), in.fsErr(kind)}
	return Iface{t: types.NewPointer(t), v: p}
}

const (
	oRDONLY = 0x0
	oWRONLY = 0x1
	oRDWR   = 0x2
	oAPPEND = 0x400
	oCREATE = 0x40
	oEXCL   = 0x80
	oTRUNC  = 0x200
)

func (in *Interp) openFile(name string, flag int) Value {
	fs := in.getFS()
	f, ok := fs.files[name]
	if !ok {
		if flag&oCREATE == 0 {
			return Tuple{(*Value)(nil), in.pathErr("open", name, "ErrNotExist")}
		}
		f = &MemFile{name: name}
		fs.files[name] = f
	} else if flag&oCREATE != 0 && flag&oEXCL != 0 {
		return Tuple{(*Value)(nil), in.pathErr("open", name, "ErrExist")}
	}
	if flag&oTRUNC != 0 {
		f.data = nil
	}
	h := &FileHandle{f: f, rdonly: flag&3 == oRDONLY, append: flag&oAPPEND != 0}
	p := new(Value)
	*p = h
	return Tuple{p, Iface{}}
}

func (in *Interp) fileInfo(f *MemFile) Value {
	// a harness-independent FileInfo: builtin object with Size/Name/ModTime/IsDir/Mode
	return Iface{t: types.NewPointer(in.namedType("os", "fileStat")), v: &builtinObj{kind: "fileinfo", data: f}}
}

func init() {
	reg("os.OpenFile", func(in *Interp, fr *frame, fn *ssa.Function, args []Value) Value {
		return in.openFile(in.argStr(args[0], "file name"), in.concreteInt(args[1], "open flag"))
	})
	reg("os.Open", func(in *Interp, fr *frame, fn *ssa.Function, args []Value) Value {
		return in.openFile(in.argStr(args[0], "file name"), oRDONLY)
	})
	reg("os.Create", func(in *Interp, fr *frame, fn *ssa.Function, args []Value) Value {
		return in.openFile(in.argStr(args[0], "file name"), oRDWR|oCREATE|oTRUNC)
	})
	reg("os.Remove", func(in *Interp, fr *frame, fn *ssa.Function, args []Value) Value {
		name := in.argStr(args[0], "file name")
		fs := in.getFS()
		if _, ok := fs.files[name]; !ok {
			return in.pathErr("remove", name, "ErrNotExist")
		}
		delete(fs.files, name)
		return Iface{}
	})
	reg("os.RemoveAll", func(in *Interp, fr *frame, fn *ssa.Function, args []Value) Value {
		name := in.argStr(args[0], "file name")
		fs := in.getFS()
		for k := range fs.files {
			if k == name || strings.HasPrefix(k, name+"/") {
				delete(fs.files, k)
			}
		}
		return Iface{}
	})
	reg("os.Truncate", func(in *Interp, fr *frame, fn *ssa.Function, args []Value) Value {
		name := in.argStr(args[0], "file name")
		f, ok := in.getFS().files[name]
		if !ok {
			return in.pathErr("truncate", name, "ErrNotExist")
		}
		n := in.concreteInt(args[1], "truncate size")
		if n < 0 {
			return in.fsErr("ErrInvalid")
		}
		for len(f.data) < n {
			f.data = append(f.data, in.tb.bytes[0])
		}
		f.data = f.data[:n:n]
		return Iface{}
	})
	reg("os.Rename", func(in *Interp, fr *frame, fn *ssa.Function, args []Value) Value {
		from, to := in.argStr(args[0], "file name"), in.argStr(args[1], "file name")
		fs := in.getFS()
		f, ok := fs.files[from]
		if !ok {
			return in.pathErr("rename", from, "ErrNotExist")
		}
		delete(fs.files, from)
		f.name = to
		fs.files[to] = f
		return Iface{}
	})
	reg("os.Stat", func(in *Interp, fr *frame, fn *ssa.Function, args []Value) Value {
		name := in.argStr(args[0], "file name")
		f, ok := in.getFS().files[name]
		if !ok {
			return Tuple{Iface{}, in.pathErr("stat", name, "ErrNotExist")}
		}
		return Tuple{in.fileInfo(f), Iface{}}
	})
	reg("os.MkdirAll", func(in *Interp, fr *frame, fn *ssa.Function, args []Value) Value { return Iface{} })
	reg("os.Mkdir", func(in *Interp, fr *frame, fn *ssa.Function, args []Value) Value { return Iface{} })
	reg("os.IsNotExist", func(in *Interp, fr *frame, fn *ssa.Function, args []Value) Value {
		e := args[0].(Iface)
		if e.t == nil {
			return in.tb.fls
		}
		if p, ok := e.v.(*Value); ok && p != nil {
			if st, ok := (*p).(Struct); ok && len(st) == 3 {
				if inner, ok := st[2].(Iface); ok {
					return in.valueEq(inner, in.fsErr("ErrNotExist"))
				}
			}
		}
		return in.valueEq(e, in.fsErr("ErrNotExist"))
	})
	reg("(*os.File).Name", func(in *Interp, fr *frame, fn *ssa.Function, args []Value) Value {
		return in.mkStr(in.fileOf(args[0]).f.name)
	})
	reg("(*os.File).Close", func(in *Interp, fr *frame, fn *ssa.Function, args []Value) Value {
		p, _ := args[0].(*Value)
		if p == nil {
			return in.fsErr("ErrInvalid")
		}
		h := in.fileOf(args[0])
		if h.closed {
			return in.fsErr("ErrClosed")
		}
		h.closed = true
		return Iface{}
	})
	reg("(*os.File).Sync", func(in *Interp, fr *frame, fn *ssa.Function, args []Value) Value { return Iface{} })
	reg("(*os.File).Stat", func(in *Interp, fr *frame, fn *ssa.Function, args []Value) Value {
		h := in.fileOf(args[0])
		if h.closed {
			return Tuple{Iface{}, in.fsErr("ErrClosed")}
		}
		return Tuple{in.fileInfo(h.f), Iface{}}
	})
	reg("(*os.File).Truncate", func(in *Interp, fr *frame, fn *ssa.Function, args []Value) Value {
		h := in.fileOf(args[0])
		n := in.concreteInt(args[1], "truncate size")
		if n < 0 {
			return in.fsErr("ErrInvalid")
		}
		for len(h.f.data) < n {
			h.f.data = append(h.f.data, in.tb.bytes[0])
		}
		h.f.data = h.f.data[:n:n]
		return Iface{}
	})
	reg("(*os.File).Seek", func(in *Interp, fr *frame, fn *ssa.Function, args []Value) Value {
		h := in.fileOf(args[0])
		off := in.concreteInt(args[1], "seek offset")
		wh := in.concreteInt(args[2], "seek whence")
		switch wh {
		case 0:
			h.pos = off
		case 1:
			h.pos += off
		case 2:
			h.pos = len(h.f.data) + off
		}
		if h.pos < 0 {
			h.pos = 0
			return Tuple{in.int64v(0), in.fsErr("ErrInvalid")}
		}
		return Tuple{in.int64v(h.pos), Iface{}}
	})
	writeAt := func(in *Interp, h *FileHandle, bs []*T, off int) {
		for len(h.f.data) < off+len(bs) {
			h.f.data = append(h.f.data, in.tb.bytes[0])
		}
		copy(h.f.data[off:], bs)
	}
	reg("(*os.File).Write", func(in *Interp, fr *frame, fn *ssa.Function, args []Value) Value {
		h := in.fileOf(args[0])
		if h.closed {
			return Tuple{in.int64v(0), in.fsErr("ErrClosed")}
		}
		if h.rdonly {
			return Tuple{in.int64v(0), in.fsErr("ErrPermission")}
		}
		bs := in.bytesOf(args[1])
		if h.append {
			h.pos = len(h.f.data)
		}
		writeAt(in, h, bs, h.pos)
		h.pos += len(bs)
		return Tuple{in.int64v(len(bs)), Iface{}}
	})
	reg("(*os.File).WriteString", func(in *Interp, fr *frame, fn *ssa.Function, args []Value) Value {
		h := in.fileOf(args[0])
		bs := in.bytesOf(args[1])
		if h.append {
			h.pos = len(h.f.data)
		}
		writeAt(in, h, bs, h.pos)
		h.pos += len(bs)
		return Tuple{in.int64v(len(bs)), Iface{}}
	})
	reg("(*os.File).WriteAt", func(in *Interp, fr *frame, fn *ssa.Function, args []Value) Value {
		h := in.fileOf(args[0])
		if h.closed {
			return Tuple{in.int64v(0), in.fsErr("ErrClosed")}
		}
		if h.rdonly {
			return Tuple{in.int64v(0), in.fsErr("ErrPermission")}
		}
		bs := in.bytesOf(args[1])
		off := in.symOffset(fr, args[2], len(h.f.data)+1)
		writeAt(in, h, bs, off)
		return Tuple{in.int64v(len(bs)), Iface{}}
	})
	reg("(*os.File).ReadAt", func(in *Interp, fr *frame, fn *ssa.Function, args []Value) Value {
		h := in.fileOf(args[0])
		if h.closed {
			return Tuple{in.int64v(0), in.fsErr("ErrClosed")}
		}
		dst := args[1].([]Value)
		off := in.symOffset(fr, args[2], len(h.f.data)+1)
		n := 0
		for n < len(dst) && off+n < len(h.f.data) {
			dst[n] = h.f.data[off+n]
			n++
		}
		if n < len(dst) {
			return Tuple{in.int64v(n), in.ioErr("EOF")}
		}
		return Tuple{in.int64v(n), Iface{}}
	})
	reg("(*os.File).Read", func(in *Interp, fr *frame, fn *ssa.Function, args []Value) Value {
		h := in.fileOf(args[0])
		if h.closed {
			return Tuple{in.int64v(0), in.fsErr("ErrClosed")}
		}
		dst := args[1].([]Value)
		if len(dst) == 0 {
			return Tuple{in.int64v(0), Iface{}}
		}
		n := 0
		for n < len(dst) && h.pos < len(h.f.data) {
			dst[n] = h.f.data[h.pos]
			n++
			h.pos++
		}
		if n == 0 {
			return Tuple{in.int64v(0), in.ioErr("EOF")}
		}
		return Tuple{in.int64v(n), Iface{}}
	})
}

// symOffset returns a concrete file offset; a symbolic one is concretised over [0,limit) with
// out-of-range values reported as unsupported (the harness must bound offsets).
func (in *Interp) symOffset(fr *frame, v Value, limit int) int {
	t := v.(*T)
	if t.IsConst() {
		o := int64(t.k)
		if o < 0 {
			in.unsupported("negative file offset %d in %s", o, fr.fn)
		}
		return int(o)
	}
	inb := in.tb.ULt(t, in.tb.BV(64, uint64(limit)))
	if !in.branch(inb) {
		// beyond the end: read returns EOF / write extends; pick the boundary behaviour by treating as limit-1+1
		in.unsupported("symbolic file offset beyond the file end in %s", fr.fn)
	}
	if limit > in.cfg.MaxConcretize*4 {
		in.unsupported("symbolic file offset over %d positions in %s", limit, fr.fn)
	}
	return in.concretize(t, limit)
}

func fileInfoCall(in *Interp, o *builtinObj, method string) Value {
	f := o.data.(*MemFile)
	switch method {
	case "Size":
		return in.int64v(len(f.data))
	case "Name":
		n := f.name
		if i := strings.LastIndex(n, "/"); i >= 0 {
			n = n[i+1:]
		}
		return in.mkStr(n)
	case "IsDir":
		return in.tb.fls
	case "Mode":
		return in.tb.BV(32, 0644)
	case "ModTime":
		return Struct{in.tb.BV(64, 0), in.tb.BV(64, uint64(unixToInternal+1<<30)), (*Value)(nil)}
	case "Sys":
		return Iface{}
	}
	in.unsupported("FileInfo.%s", method)
	return nil
}

func (in *Interp) listFiles() []string {
	var r []string
	for k := range in.getFS().files {
		r = append(r, k)
	}
	sort.Strings(r)
	return r
}

var _ = ssa.Function{}
