#!/bin/bash
# usage: seedcheck.sh <seed-out-dir> <property-id> <name> [pkgs-to-test...]
# Confirms a seeded breaking change independently (scratch worktree), runs the property's check against it
# (patch applied to /repo, reverted afterwards) and stores it under /verif/seeded/<name>/.
set -u
out=$1; pid=$2; name=$3; shift 3
pkgs="$@"
export GOFLAGS=-mod=mod GOPROXY=off GOSUMDB=off GOTOOLCHAIN=local
meta=$out/meta.json
demodir=$(python3 -c "import json;print(json.load(open('$meta'))['demo_test_dir'])")
wt=/tmp/sv_$name
git -C /repo worktree remove --force $wt 2>/dev/null
git -C /repo worktree add -q $wt HEAD || exit 9
res="{}"
cp $out/zz_seed_demo_test.go $wt/$demodir/
tagflag=""
grep -q "5BytesOffset" $out/zz_seed_demo_test.go && grep -q "^// *+build 5BytesOffset\|^//go:build 5BytesOffset" $out/zz_seed_demo_test.go && tagflag="-tags 5BytesOffset"
( cd $wt && go test $tagflag -count=1 -run TestSeedDemo ./$demodir/ >/tmp/sv_$name.base.log 2>&1 ); base=$?
( cd $wt && git apply $out/patch.diff ) || { echo "PATCH-DOES-NOT-APPLY"; git -C /repo worktree remove --force $wt; exit 8; }
( cd $wt && go build ./weed/... >/tmp/sv_$name.build.log 2>&1 ); build=$?
( cd $wt && go test $tagflag -count=1 -run TestSeedDemo ./$demodir/ >/tmp/sv_$name.demo.log 2>&1 ); demo=$?
rm $wt/$demodir/zz_seed_demo_test.go
( cd $wt && go test -count=1 $pkgs 2>&1 | grep -v "TestPositioning" | grep -E "^(FAIL|---|ok|panic)" >/tmp/sv_$name.tests.log ); 
fails=$(grep -E "^--- FAIL" /tmp/sv_$name.tests.log | grep -v TestPositioning | wc -l)
echo "confirm: demo_without_patch_rc=$base (want 0) build_rc=$build (want 0) demo_with_patch_rc=$demo (want !=0) existing_test_failures=$fails (want 0)"
# run the check against the scratch worktree that has the patch applied (VERIF_REPO), leaving /repo alone
s=$(date +%s)
cd /verif && VERIF_REPO=$wt ./check $pid > /tmp/sv_$name.check.log 2>/tmp/sv_$name.check.err; rc=$?
git -C /repo worktree remove --force $wt
echo "check $pid rc=$rc ($(( $(date +%s) - s ))s): $(grep -E '^(VIOLATION|INCONCLUSIVE|ENGINE-MISMATCH|OK|ERROR)' /tmp/sv_$name.check.log | head -3 | cut -c1-200)"
mkdir -p /verif/seeded/$name
cp $out/patch.diff $out/zz_seed_demo_test.go /verif/seeded/$name/
python3 - <<PY
import json
m=json.load(open('$meta'))
m['confirmed']={'demo_passes_without_patch': $base==0, 'builds': $build==0, 'demo_fails_with_patch': $demo!=0, 'existing_test_failures': $fails, 'packages_tested': '$pkgs'}
m['check_result']={'property': '$pid', 'exit_code': $rc, 'lines': [l.strip()[:300] for l in open('/tmp/sv_$name.check.log') if l.startswith(('VIOLATION','INCONCLUSIVE','ENGINE-MISMATCH','OK','ERROR'))][:5]}
json.dump(m, open('/verif/seeded/$name/meta.json','w'), indent=1)
PY
